---------------------------- MODULE ForwardResp ----------------------------
(***************************************************************************)
(* C18 - the response side of sso-proxy's forwarding pipeline, and the     *)
(* header set of sso-auth's endpoints.                                     *)
(*                                                                         *)
(* Mechanism: the response header writers of one configured upstream as    *)
(* ordered stages with the semantics of net/http's Header map              *)
(* (internal/proxy/oauthproxy.go Handler(), middleware.go,                 *)
(* reverse_proxy.go):                                                      *)
(*                                                                         *)
(*   SetSecurityHeaders   Set the three protected headers     (outermost)  *)
(*   HeaderOverrides      Set every header_overrides entry                 *)
(*   RequireHTTPS         (secure cookies only) Set HSTS; 301 to https     *)
(*                        unless the first X-Forwarded-Proto is "https"    *)
(*   router -> handler    redirect / error page / JSON error / proxied     *)
(*   proxied branch       transport parses the upstream's header block     *)
(*                        (canonical keys, values in order),               *)
(*                        ModifyResponse Dels the protected headers,       *)
(*                        ReverseProxy copyHeader ADDs the rest to its     *)
(*                        ResponseWriter: with a per-upstream timeout that *)
(*                        is http.TimeoutHandler's buffer, which on        *)
(*                        completion REPLACES the outer values key by key  *)
(*                        (dst[k] = vv); with flush_interval it is the     *)
(*                        outer map itself.                                *)
(*                                                                         *)
(* A header map is a function  H -> Seq(value class); <<>> = absent.       *)
(* Value classes: "own" the proxy's value, "ovr" the configured override,  *)
(* "up","up2" values sent by the upstream.                                 *)
(*                                                                         *)
(* Cells: (cookie settings, chain, override, X-Forwarded-Proto class,      *)
(* request kind = the outcome the request is steered to, upstream header   *)
(* behaviour per protected header, upstream status).  A decision table:    *)
(* every cell is an initial state, one Step computes the response.         *)
(*                                                                         *)
(* Property rules (operators R_...) are written from the statement of C18 over         *)
(* (cell, observed response); they are checked on the mechanism (Leg M)    *)
(* and on every response observed from the real services (Leg V).          *)
(***************************************************************************)
EXTENDS Integers, Sequences, FiniteSets, TLC

CONSTANT D7Fixed   \* TRUE: ModifyResponse also deletes Strict-Transport-Security (the documented list of four;
                   \*       fixes/D7.diff).  FALSE: only the three of `securityHeaders` (defect D7).

H3 == {"XCTO", "XFO", "XXSS"}       \* X-Content-Type-Options, X-Frame-Options, X-XSS-Protection
H  == H3 \cup {"HSTS"}              \* + Strict-Transport-Security
UpVals == {"up", "up2"}

Chains == {"timeout", "flush"}      \* options.timeout (http.TimeoutHandler) | options.flush_interval (none)
Ovrs   == {"none", "xcto", "xfo", "xss", "hsts", "other"}
Xfps   == {"none", "http", "https", "upper", "list", "listhttp", "lines", "junk"}
\* list: one comma-joined value that begins with https; listhttp: one that begins with http (the client's own leg, as
\* in X-Forwarded-For); lines: two header lines, the first "https"
UpClasses == {"absent", "set", "dup", "case"}
Statuses == {200, 404, 500}

ProxiedKinds == {"proxied", "proxied_skip", "proxied_reval"}
GatewayKinds == {"badgateway", "timeout"}
PageKinds == {"signin", "signin_bad", "xhr401", "forbidden", "xhr403", "revoked", "err500",
              "cb_ok", "cb_error", "cb_denied", "cb_redeemfail", "cb_nocsrf", "cb_mismatch",
              "favicon404", "certs", "robots", "signout", "authonly202", "authonly401", "cleanpath"}
Kinds == ProxiedKinds \cup GatewayKinds \cup PageKinds

NoUps == [h \in H |-> "absent"]

\* outcome sweep: every kind x every configuration dimension, quiet upstream
CellsA == { c \in [secure : BOOLEAN, httponly : BOOLEAN, domain : BOOLEAN, chain : Chains, ovr : Ovrs, xfp : Xfps,
                   kind : Kinds, ups : {NoUps}, ustatus : {200}] :
              c.kind = "timeout" => c.chain = "timeout" }
\* upstream sweep: every behaviour of the upstream on the four headers x status, on the proxied branches
CellsB == [secure : BOOLEAN, httponly : {TRUE}, domain : {FALSE}, chain : Chains, ovr : Ovrs, xfp : {"https"},
           kind : ProxiedKinds, ups : [H -> UpClasses], ustatus : Statuses]
ProxyCells == CellsA \cup CellsB

\* sso-auth: endpoint x scenario x Accept
AuthScn == [ start    |-> {"ok", "badredirect", "method"},
             sign_in  |-> {"page", "badclient", "badsig", "session", "method"},
             sign_out |-> {"get_nocookie", "get_page", "post_ok", "post_revokefail", "badsig", "method"},
             callback |-> {"errorparam", "nocode", "ok", "nocsrf", "method"},
             redeem   |-> {"ok", "badcode", "badsecret", "method"},
             refresh  |-> {"ok", "idpfail", "badsecret", "method"},
             validate |-> {"ok", "idpfail", "badsecret", "method"},
             profile  |-> {"ok", "noemail", "badsecret", "method"} ]
AuthEps == DOMAIN AuthScn
AH == {"HSTS", "XFO", "XCTO", "XXSS", "CSP", "RP"}
AuthCells == { [ep |-> e, scn |-> s, accept |-> a] : e \in AuthEps, s \in UNION { AuthScn[x] : x \in AuthEps }, a \in {"html", "json"} }
AuthCellOK(c) == c.scn \in AuthScn[c.ep]

-----------------------------------------------------------------------------
(* Mechanism: net/http Header operations on canonical keys *)

Empty == [h \in H |-> <<>>]
Set(m, h, v) == [m EXCEPT ![h] = <<v>>]
Del(m, h) == [m EXCEPT ![h] = <<>>]

\* setSecurityHeaders: Set for every entry of `securityHeaders`
SetSecurityHeaders(m) == [h \in H |-> IF h \in H3 THEN <<"own">> ELSE m[h]]

OvrKey(o) == CASE o = "xcto" -> "XCTO" [] o = "xfo" -> "XFO" [] o = "xss" -> "XXSS" [] o = "hsts" -> "HSTS" [] OTHER -> "-"
\* setResponseHeaderOverrides: Set for every entry of the upstream's header_overrides
HeaderOverrides(m, o) == IF OvrKey(o) \in H THEN Set(m, OvrKey(o), "ovr") ELSE m

\* requireHTTPS is in the chain only with secure cookies
RequireHTTPSHeader(m, secure) == IF secure THEN Set(m, "HSTS", "own") ELSE m
IsHTTPS(xfp) == xfp \in {"https", "lines"}    \* req.Header.Get("X-Forwarded-Proto") == "https": first line's value, exact

\* transport: the upstream's header block parsed into canonical keys, values in order
Parsed(ups) == [h \in H |-> CASE ups[h] = "absent" -> <<>>
                              [] ups[h] \in {"set", "case"} -> <<"up">>
                              [] ups[h] = "dup" -> <<"up", "up2">>]
Dropped == IF D7Fixed THEN H ELSE H3
ModifyResponse(u) == [h \in H |-> IF h \in Dropped THEN <<>> ELSE u[h]]
CopyHeader(dst, src) == [h \in H |-> dst[h] \o src[h]]                            \* httputil copyHeader: Add
TimeoutFlush(outer, buf) == [h \in H |-> IF buf[h] # <<>> THEN buf[h] ELSE outer[h]]  \* timeoutWriter: dst[k] = vv

ProxiedHeaders(outer, chain, ups) ==
   LET u == ModifyResponse(Parsed(ups))
   IN IF chain = "timeout" THEN TimeoutFlush(outer, CopyHeader(Empty, u)) ELSE CopyHeader(outer, u)

\* AuthenticateOnly answers a failed authentication with net/http's http.Error, which Sets
\* X-Content-Type-Options: nosniff itself (the same value as the proxy's own)
HttpError(m) == Set(m, "XCTO", "own")

\* sessions.CookieStore.makeCookie
MakeCookie(c, name) == [name |-> name, secure |-> c.secure, httponly |-> c.httponly, path |-> "root",
                        dom |-> IF c.domain THEN "cfg" ELSE "host"]

\* which of the two cookies each outcome writes (Authenticate clears the session cookie on every failure,
\* OAuthStart sets the CSRF cookie, the callback saves the session and clears the CSRF cookie)
CookieNames(k) ==
   CASE k \in {"signin", "signin_bad", "cb_ok"} -> <<"sess", "csrf">>
     [] k \in {"xhr401", "forbidden", "xhr403", "revoked", "err500", "favicon404", "signout", "authonly401", "proxied_reval"} -> <<"sess">>
     [] OTHER -> <<>>
CookiesOf(c) == LET n == CookieNames(c.kind) IN [i \in DOMAIN n |-> MakeCookie(c, n[i])]

StatusOf(c) ==
   CASE c.kind \in ProxiedKinds -> c.ustatus
     [] c.kind = "badgateway" -> 502
     [] c.kind = "timeout" -> 503
     [] c.kind \in {"signin", "signin_bad", "cb_ok", "signout"} -> 302
     [] c.kind \in {"xhr401", "revoked", "authonly401"} -> 401
     [] c.kind \in {"forbidden", "xhr403", "cb_error", "cb_denied"} -> 403
     [] c.kind \in {"err500", "cb_redeemfail"} -> 500
     [] c.kind \in {"cb_nocsrf", "cb_mismatch"} -> 400
     [] c.kind = "favicon404" -> 404
     [] c.kind = "authonly202" -> 202
     [] c.kind = "cleanpath" -> 301
     [] OTHER -> 200

NoLoc == [scheme |-> "none", host |-> FALSE, path |-> FALSE, query |-> FALSE]
UpgradeLoc == [scheme |-> "https", host |-> TRUE, path |-> TRUE, query |-> TRUE]

Respond(c) ==
   LET h1 == SetSecurityHeaders(Empty)
       h2 == HeaderOverrides(h1, c.ovr)
       h3 == RequireHTTPSHeader(h2, c.secure)
   IN IF c.secure /\ ~IsHTTPS(c.xfp)
      THEN [status |-> 301, hdr |-> h3, cookies |-> <<>>, loc |-> UpgradeLoc]
      ELSE [status |-> StatusOf(c),
            hdr |-> IF c.kind \in ProxiedKinds THEN ProxiedHeaders(h3, c.chain, c.ups)
                    ELSE IF c.kind = "authonly401" THEN HttpError(h3) ELSE h3,
            cookies |-> CookiesOf(c), loc |-> NoLoc]

\* sso-auth: setHeaders wraps the whole service mux
AuthRespond(c) == [hdr |-> [h \in AH |-> <<"strong">>]]

-----------------------------------------------------------------------------
(* Property rules, from the statement of C18 *)

\* "carries X-Content-Type-Options, X-Frame-Options and X-XSS-Protection with the proxy's values regardless
\*  of what the upstream sent, unless that upstream's configuration overrides the header explicitly"
R_Protected3(c, o) ==
   \A h \in H3 : OvrKey(c.ovr) # h => o.hdr[h] = <<"own">>
\* an explicitly overridden header is the configuration's business, never the upstream's
R_OverrideNotUpstream(c, o) ==
   \A h \in H3 : OvrKey(c.ovr) = h => /\ o.hdr[h] # <<>>
                                      /\ \A i \in DOMAIN o.hdr[h] : o.hdr[h][i] \notin UpVals
\* "with secure cookies enabled ... every response carries the proxy's own HSTS value, which an upstream
\*  likewise cannot replace or weaken"
R_HSTSOwn(c, o) ==
   (c.secure /\ c.ovr # "hsts") => o.hdr["HSTS"] = <<"own">>
\* "a plain-HTTP request is redirected to https on the same host with the same (decoded) path and query"
PlainHTTP(c) == c.xfp \in {"none", "http", "junk", "listhttp"}
\* (the statement says "redirected", not which redirect: 301 today; 302 / 303 / 307 / 308 are redirects too)
RedirectStatuses == {301, 302, 303, 307, 308}
R_HTTPSUpgrade(c, o) ==
   (c.secure /\ PlainHTTP(c)) => (o.status \in RedirectStatuses /\ o.loc = UpgradeLoc)
\* "Session and CSRF cookies are always set with the configured Secure and HttpOnly flags, path /, and
\*  the request host or configured domain"
R_CookieFlags(c, o) ==
   \A i \in DOMAIN o.cookies :
      LET k == o.cookies[i] IN
      k.name \in {"sess", "csrf"} =>
         /\ k.secure = c.secure /\ k.httponly = c.httponly /\ k.path = "root"
         /\ k.dom = IF c.domain THEN "cfg" ELSE "host"
\* "every response from sso-auth's sign-in, sign-out, OAuth and token endpoints carries its security header set"
R_AuthHeaders(c, o) == \A h \in AH : o.hdr[h] = <<"strong">>

Violated(c, o) ==
   { n \in {"C18_Protected3", "C18_OverrideNotUpstream", "C18_HSTSOwn", "C18_HTTPSUpgrade", "C18_CookieFlags"} :
       CASE n = "C18_Protected3" -> ~R_Protected3(c, o)
         [] n = "C18_OverrideNotUpstream" -> ~R_OverrideNotUpstream(c, o)
         [] n = "C18_HSTSOwn" -> ~R_HSTSOwn(c, o)
         [] n = "C18_HTTPSUpgrade" -> ~R_HTTPSUpgrade(c, o)
         [] n = "C18_CookieFlags" -> ~R_CookieFlags(c, o) }
AuthViolated(c, o) == IF R_AuthHeaders(c, o) THEN {} ELSE {"C18_AuthHeaders"}

-----------------------------------------------------------------------------
(* The decision table as a transition system *)

VARIABLES cell, out, done
vars == <<cell, out, done>>

Init == /\ cell \in [t : {"proxy"}, c : ProxyCells] \cup [t : {"auth"}, c : { a \in AuthCells : AuthCellOK(a) }]
        /\ out = [status |-> 0]
        /\ done = FALSE

Step == /\ ~done
        /\ out' = IF cell.t = "proxy" THEN Respond(cell.c) ELSE AuthRespond(cell.c)
        /\ done' = TRUE
        /\ UNCHANGED cell

Spec == Init /\ [][Step]_vars

\* Leg M: the mechanism satisfies every rule in every cell
RulesHold == done => IF cell.t = "proxy" THEN Violated(cell.c, out) = {} ELSE AuthViolated(cell.c, out) = {}
\* D7 isolated (ForwardResp.D7.cfg expects exactly this one to fail when D7Fixed = FALSE)
HSTSOwnHolds == (done /\ cell.t = "proxy") => R_HSTSOwn(cell.c, out)
OtherRulesHold == (done /\ cell.t = "proxy") => Violated(cell.c, out) \subseteq {"C18_HSTSOwn"}

\* vacuity: which rule antecedents a cell reaches (emitted with every generated cell and counted over the
\* cells that were actually executed against the implementation)
Antecedents(c) ==
   { n \in {"Protected3", "OverrideNotUpstream", "HSTSOwn", "HTTPSUpgrade", "UpstreamSendsProtected", "UpstreamSendsHSTS"} :
       CASE n = "Protected3" -> OvrKey(c.ovr) \notin H3
         [] n = "OverrideNotUpstream" -> OvrKey(c.ovr) \in H3
         [] n = "HSTSOwn" -> c.secure /\ c.ovr # "hsts"
         [] n = "HTTPSUpgrade" -> c.secure /\ PlainHTTP(c)
         [] n = "UpstreamSendsProtected" -> c.kind \in ProxiedKinds /\ \E h \in H3 : c.ups[h] # "absent"
         [] n = "UpstreamSendsHSTS" -> c.kind \in ProxiedKinds /\ c.ups["HSTS"] # "absent" /\ c.secure }
=============================================================================
