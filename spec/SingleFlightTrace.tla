------------------------- MODULE SingleFlightTrace -------------------------
(***************************************************************************)
(* Leg V for SingleFlight: steps recorded while a behaviour was replayed   *)
(* on the real singleflight.Group or on a SingleFlightProvider wrapper are *)
(* matched against the specification's actions (all arguments are logged,  *)
(* so the search is linear).  What each caller observed - did it start an  *)
(* execution or join one, which execution's result it got, the join count, *)
(* the session updates it ended with - is compared with the specification  *)
(* run with FollowerKeepsStale = FALSE, i.e. as the property demands.      *)
(* After a differing step the rest of that behaviour is skipped.           *)
(***************************************************************************)
EXTENDS SingleFlight, Json, IOUtils

Trace == ndJsonDeserialize(IOEnv.VERIF_TRACE)
VARIABLES l, lost
tvars == <<vars, l, lost>>

TInit == Init /\ l = 1 /\ lost = FALSE /\ TLCSet(1, 1)

Q(r) == [ep |-> r.ep, subj |-> r.subj]
Say(vs) == IF vs = {} THEN lost' = FALSE ELSE PrintT(<<"VIOL", l, vs>>) /\ lost' = TRUE

RoleViol(r, c) ==
   IF cs'[c].st = "wait" /\ r.role # "wait" THEN {"C16_OneExecutionPerKey"}
   ELSE IF cs'[c].st = "lead" /\ r.role # "lead" THEN {"C16_NeverMergedAcrossSubjectsOrAfterCompletion"}
   ELSE {}

RetViol(r, c) ==
   LET want == cs[c] IN
   (IF r.role = "no-result" \/ r.rok # want.res[2] \/ (r.val # 0 /\ r.val # want.res[1]) THEN {"C16_JoinersGetThatResult"} ELSE {})
   \cup (IF r.count # -1 /\ r.count # want.count THEN {"C16_LeaderCountsJoiners"} ELSE {})
   \cup (IF r.sess # -1 /\ r.sess # want.sess[2] THEN {"C16_MergedCallersEndEqual"} ELSE {})

TStep ==
   /\ l <= Len(Trace)
   /\ LET r == Trace[l] IN
        IF r.ev = "reset" THEN
           /\ m' = [k \in Keys |-> None] /\ cs' = [c \in Callers |-> Idle] /\ nexec' = 0 /\ log' = <<>> /\ narr' = 0
           /\ lost' = FALSE
        ELSE IF lost THEN UNCHANGED <<vars, lost>>
        ELSE CASE r.ev = "arrive" -> Arrive(r.c, Q(r)) /\ Say(RoleViol(r, r.c))
               [] r.ev = "exec" -> ExecReturn(KeyOf(Q(r)), r.ok) /\ Say(IF r.role = "no-such-exec" THEN {"HARNESS_NoSuchExec"} ELSE {})
               [] r.ev = "cleanup" -> Cleanup(KeyOf(Q(r))) /\ lost' = FALSE
               [] r.ev = "wake" -> FollowerWake(r.c) /\ lost' = FALSE
               [] r.ev = "return" -> Return(r.c) /\ Say(RetViol(r, r.c))
               [] r.ev = "recycle" -> Recycle(r.c) /\ lost' = FALSE
   /\ l' = l + 1

TSpec == TInit /\ [][TStep]_tvars
Track == IF l > TLCGet(1) THEN TLCSet(1, l) ELSE TRUE
Accepted == TLCGet(1) = Len(Trace) + 1
=============================================================================
