\* as implemented: the departures from the documented semantics are exactly the recorded ones
SPECIFICATION Spec
CONSTANTS
  PerRequestAllOf = TRUE
  RevalidationNeedsGroup = TRUE
  StarEntryIsSuffix = TRUE
INVARIANTS TypeOK DeviationsAreTheKnownOnes StarTailDeparture EmptyAdmitsNobody NoLaterAdmitWithoutLogin
CHECK_DEADLOCK FALSE
