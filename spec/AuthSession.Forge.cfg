\* Leg M, one-step from every cookie content a sealed cookie can carry and every callback / redeem case
SPECIFICATION Spec
CONSTANTS
  LifeTTL = 6
  Expiries = {1, 3}
  Forge = TRUE
  D2 = FALSE
INVARIANTS TypeOK
PROPERTIES StepOK
CHECK_DEADLOCK FALSE
VIEW View
