SPECIFICATION GenSpec
CONSTANTS
  Callers = {1, 2, 3}
  Eps = {"V", "R"}
  Subjs = {"a", "b"}
  MaxExec = 3
  MaxArr = 4
  LateJoin = FALSE
  FollowerKeepsStale = FALSE
  Coarse = TRUE
  Reuse = TRUE
ACTION_CONSTRAINT Emit
VIEW GenView
CHECK_DEADLOCK FALSE
