SPECIFICATION TSpec
CONSTANTS
  Users = {"u1", "u2"}
  Groups = {"g1", "g2"}
  Callers = {"t1", "t2"}
  MemberVals = {{}, {"g1"}, {"g2"}, {"g1", "g2"}}
  Coarse = FALSE
  Questions <- Questions4
CONSTRAINT Track
POSTCONDITION Accepted
CHECK_DEADLOCK FALSE
