-------------------------- MODULE SingleFlightGen --------------------------
(* Leg G: behaviours of SingleFlight as event sequences (Coarse = TRUE: the  *)
(* steps between an execution's return and its callers' returns cannot be    *)
(* gated in the real code, so no arrival is scheduled inside them).           *)
EXTENDS SingleFlight, Json

VARIABLE hist
Ev(op, c, q, ok) == [op |-> op, c |-> c, ep |-> q.ep, subj |-> q.subj, ok |-> ok]
QOf(k) == [ep |-> k[1], subj |-> k[2]]
NoQ == [ep |-> "none", subj |-> "none"]

GenNext ==
   \/ \E c \in Callers, q \in Qs : Arrive(c, q) /\ hist' = Append(hist, Ev("arrive", c, q, FALSE))
   \/ \E k \in Keys, ok \in BOOLEAN : ExecReturn(k, ok) /\ hist' = Append(hist, Ev("exec", 0, QOf(k), ok))
   \/ \E k \in Keys : Cleanup(k) /\ hist' = Append(hist, Ev("cleanup", 0, QOf(k), FALSE))
   \/ \E c \in Callers : FollowerWake(c) /\ hist' = Append(hist, Ev("wake", c, NoQ, FALSE))
   \/ \E c \in Callers : Return(c) /\ hist' = Append(hist, Ev("return", c, NoQ, FALSE))
   \/ \E c \in Callers : Recycle(c) /\ hist' = Append(hist, Ev("recycle", c, NoQ, FALSE))
GenSpec == Init /\ hist = <<>> /\ [][GenNext]_<<vars, hist>>
GenView == <<m, cs, nexec, narr>>
\* emit complete behaviours only: nobody is mid-call
Quiet == \A c \in Callers : cs'[c].st \in {"idle", "done"}
Emit == IF Quiet /\ Len(hist') > 0 THEN PrintT(<<"BEH", ToJson(hist')>>) ELSE TRUE
=============================================================================
