\* Leg G (and Leg M in the same pass): every cell is emitted and the mechanism's outcome is checked against the rules
SPECIFICATION Spec
CONSTANTS
  ProviderFromDefault = FALSE
  TableIds = {1, 2, 3}
INVARIANTS RulesHold RouteIsMatch TablesOK
ACTION_CONSTRAINT Emit
CHECK_DEADLOCK FALSE
