----------------------------- MODULE PagesTrace -----------------------------
(***************************************************************************)
(* Leg V for Pages: every response the real handlers of sso-proxy and      *)
(* sso-auth rendered for a hostile value in one source is judged by the    *)
(* rules of Pages.tla.  The harness (harness/pg) tokenises the body        *)
(* (golang.org/x/net/html), reduces it to its structure and compares it    *)
(* with the structures the same tree renders for benign values:            *)
(*   kind      html | json | plain | empty | upstream                       *)
(*   known     the structure is one rendered for benign values             *)
(*   samepage  same status and structure as this very cell's benign run    *)
(*             (FALSE when a gate turned the hostile value away: the       *)
(*             handler took another branch; nothing is compared then)      *)
(*   jsonvalid json.Valid(body); jsonsame: same key/type skeleton          *)
(*   lands     contexts in which the payload's marker was found            *)
(***************************************************************************)
EXTENDS Pages, Json, IOUtils

Trace == ndJsonDeserialize(IOEnv.VERIF_TRACE)

VARIABLE l
tvars == <<l, cell, out, done>>

SeqToSet(s) == { s[i] : i \in DOMAIN s }
\* sources whose text is echoed whole (a provider answer / a bad escape reach the page only through
\* a parser's error message: a few characters)
FullEcho == {"error", "redirect_uri", "state", "query", "email", "method", "ts"}

Drift(c, pred, o) ==
   IF ~o.samepage THEN {}
   ELSE { f \in {"kind", "status", "lands", "jsonsame"} :
            CASE f = "kind" -> pred.kind # o.kind
              [] f = "status" -> pred.status # o.status
              [] f = "lands" -> c.src \in FullEcho /\ c.pclass # "ts_valid" /\ pred.lands # SeqToSet(o.lands)
              [] f = "jsonsame" -> o.kind = "json" /\ ~o.jsonsame }

Report(vs, dr) ==
   /\ IF vs = {} THEN TRUE ELSE PrintT(<<"VIOL", l, vs>>)
   /\ IF dr = {} THEN TRUE ELSE PrintT(<<"DRIFT", l, dr>>)

TInit == l = 1 /\ cell = 0 /\ out = 0 /\ done = FALSE /\ TLCSet(1, 1)

TPage ==
   /\ l <= Len(Trace) /\ Trace[l].ev = "page"
   /\ LET r == Trace[l] IN
        Report(Violated(r.out) \cup (IF r.ok THEN {} ELSE {"HARNESS_NotDriven"}), Drift(r.c, Predict(r.c), r.out))
   /\ l' = l + 1 /\ UNCHANGED <<cell, out, done>>

TSpec == TInit /\ [][TPage]_tvars

Track == IF l > TLCGet(1) THEN TLCSet(1, l) ELSE TRUE
Accepted == TLCGet(1) = Len(Trace) + 1
=============================================================================
