---------------------------- MODULE BreakerTrace ----------------------------
(***************************************************************************)
(* Leg V for Breaker: a trace recorded from a real circuit.Breaker whose   *)
(* critical sections were entered in a known order (deterministic replay)  *)
(* is stepped through the specification's BeginF / EndF / TickF; after     *)
(* every step the implementation's answer (f ran / rejected / returned),   *)
(* its state snapshot, its OnStateChange / OnBackoff hook calls and the    *)
(* statement-level invariants are compared.  A step that differs is        *)
(* printed as VIOL with the names of the clauses it breaks; the rest of    *)
(* that behaviour is skipped (the model state is no longer meaningful)     *)
(* and validation resumes at the next reset.                               *)
(*                                                                         *)
(* The open -> half-open change is LAZY: the statement fixes what a call   *)
(* meets after the deadline, not at which critical section the breaker     *)
(* notices that the deadline has passed.  The model notices it in every    *)
(* critical section (like the code today); an implementation that leaves   *)
(* it to the next admission is just as right.  So snapshots are compared   *)
(* after applying the pending lazy change to both sides (NormB), and the   *)
(* hook sequence is compared up to one owed open -> half-open hook (owe).  *)
(***************************************************************************)
EXTENDS Breaker, Json, IOUtils

Trace == ndJsonDeserialize(IOEnv.VERIF_TRACE)

VARIABLES l, lost,
          owe,   \* the model has already made the lazy open -> half-open change, the implementation has not yet
          ahead  \* the other way round: the implementation has made it (say, from a timer at the deadline), the model not yet
tvars == <<b, call, last, l, lost, owe, ahead>>

SeqToSet(s) == { s[i] : i \in DOMAIN s }
ObsHooks(r) == [i \in DOMAIN r.hooks |-> <<r.hooks[i][1], r.hooks[i][2]>>]

Snap(bb) == [st |-> bb.st, cur |-> bb.cur, succ |-> bb.succ, fail |-> bb.fail, rem |-> bb.rem, gen |-> bb.gen]
NormB(bb, cl) == Lazy(S0(bb, cl)).b            \* the state with the pending lazy change applied
Pending(bb) == bb.st = "open" /\ bb.rem < 0
LZ == <<"open", "half">>
\* hooks expected from the implementation in this step: what the model did, preceded by the change it still owed
\* (WHEN the breaker notices that the back-off is over is not in the statement: lazily at the next call, as today, or
\*  eagerly from a timer. The hook sequence is the same either way; only the step in which open -> half-open shows
\*  differs, and one such hook may be owed in either direction.)
ExpHooks(s) == IF owe THEN <<LZ>> \o s.hooks
               ELSE IF ahead /\ Len(s.hooks) >= 1 /\ s.hooks[1] = LZ THEN Tail(s.hooks)
               ELSE s.hooks
OweAfter(r, s) == Pending(Snap(r.snap)) /\ ~Pending(s.b)
AheadAfter(r, s) == ~Pending(Snap(r.snap)) /\ Pending(s.b) /\ r.snap.st # "open"
HooksOK(r, s) ==
   LET e == ExpHooks(s) IN
   IF OweAfter(r, s) THEN Len(e) >= 1 /\ e[1] = LZ /\ ObsHooks(r) = Tail(e)
   ELSE IF AheadAfter(r, s) /\ ~ahead THEN ObsHooks(r) = e \o <<LZ>>
   ELSE ObsHooks(r) = e

\* clauses of the statement a step can break, from what was observed
Broken(r, s, pre, precall) ==
   LET eff == IF pre.st = "open" /\ pre.rem < 0 THEN "half" ELSE pre.st
       o == NormB(Snap(r.snap), s.call)      \* observed and predicted state, both with the pending lazy change applied
       m == NormB(s.b, s.call)
   IN { n \in {"C15_ClosedAdmitsAll", "C15_OpenRejectsWithoutRunning", "C15_HalfOpenCap", "C15_Result",
               "C15_State", "C15_Counters", "C15_InFlight", "C15_Backoff", "C15_Generation", "C15_Hooks", "C15_StaleIsInert"} :
        CASE n = "C15_ClosedAdmitsAll" -> r.ev = "begin" /\ eff = "closed" /\ r.res # "admitted"
          [] n = "C15_OpenRejectsWithoutRunning" -> r.ev = "begin" /\ eff = "open" /\ (r.res # "rejected" \/ r.fran)
          [] n = "C15_HalfOpenCap" -> \/ r.ev = "begin" /\ eff = "half" /\ r.res # s.res
                                      \/ o.st = "half" /\ Cardinality({c \in Calls : s.call[c] = "fresh"}) > Cap
          [] n = "C15_Result" -> r.res # s.res
          [] n = "C15_State" -> o.st # m.st
          \* the counters the statement's rules read: consecutive failures while closed (trip rule), consecutive successes
          \* while half-open (reset rule); the other one is the implementation's business until the next state change clears both
          [] n = "C15_Counters" -> (m.st = "half" /\ o.succ # m.succ) \/ (m.st = "closed" /\ o.fail # m.fail)
          [] n = "C15_InFlight" -> o.cur < 0 \/ o.cur # r.running \/ o.cur # m.cur
          [] n = "C15_Backoff" -> o.rem # m.rem \/ r.backoffs # s.backoffs
          [] n = "C15_Generation" -> o.gen # m.gen
          [] n = "C15_Hooks" -> ~HooksOK(r, s)
          [] n = "C15_StaleIsInert" -> r.ev = "end" /\ precall[r.c] = "stale" /\ (o.st # m.st \/ (m.st = "half" /\ o.succ # m.succ) \/ (m.st = "closed" /\ o.fail # m.fail)) }

TInit == /\ b = B0 /\ call = [c \in Calls |-> "idle"] /\ last = [ev |-> "init"] /\ l = 1 /\ lost = FALSE /\ owe = FALSE /\ ahead = FALSE
         /\ TLCSet(1, 1)

StepF(r) ==
   CASE r.ev = "begin" -> BeginF(b, call, r.c)
     [] r.ev = "end" -> EndF(b, call, r.c, r.ok)
     [] r.ev = "tick" -> TickF(b, call)
     [] r.ev = "recycle" -> [S0(b, call) EXCEPT !.call[r.c] = "idle"]

Enabled(r) ==
   CASE r.ev = "begin" -> call[r.c] = "idle"
     [] r.ev = "end" -> call[r.c] \in {"fresh", "stale"}
     [] r.ev = "recycle" -> call[r.c] \in {"done", "rej"}
     [] OTHER -> TRUE

TStep ==
   /\ l <= Len(Trace)
   /\ LET r == Trace[l] IN
        IF r.ev = "reset" THEN
           /\ b' = B0 /\ call' = [c \in Calls |-> "idle"] /\ lost' = FALSE /\ owe' = FALSE /\ ahead' = FALSE
           /\ IF Snap(B0) = r.snap THEN TRUE ELSE PrintT(<<"VIOL", l, {"C15_InitialState"}>>)
        ELSE IF lost THEN UNCHANGED <<b, call, lost, owe, ahead>>
        ELSE IF ~Enabled(r) THEN
           /\ PrintT(<<"VIOL", l, {"HARNESS_EventNotEnabled"}>>)
           /\ lost' = TRUE /\ UNCHANGED <<b, call, owe, ahead>>
        ELSE LET s == StepF(r)
                 br == Broken(r, s, b, call)
             IN /\ b' = s.b /\ call' = s.call /\ owe' = OweAfter(r, s) /\ ahead' = AheadAfter(r, s)
                /\ IF br = {} THEN lost' = FALSE ELSE PrintT(<<"VIOL", l, br>>) /\ lost' = TRUE
   /\ last' = [ev |-> "trace"]
   /\ l' = l + 1

TSpec == TInit /\ [][TStep]_tvars
Track == IF l > TLCGet(1) THEN TLCSet(1, l) ELSE TRUE
Accepted == TLCGet(1) = Len(Trace) + 1
=============================================================================
