---------------------------- MODULE BreakerStress ----------------------------
(***************************************************************************)
(* Leg S for Breaker: free-running goroutines call the real breaker; only  *)
(* what happens OUTSIDE its mutex is logged (a call is invoked, its f      *)
(* starts and ends, the call returns; the mock clock is advanced).  Where  *)
(* the two critical sections of a call - and the clock's step - fall       *)
(* between those events is not observable, so they are silent steps here   *)
(* and TLC searches for an order of them that explains every observed      *)
(* admission, rejection and the final state.  The trace is accepted iff    *)
(* some path consumes every line.                                          *)
(***************************************************************************)
EXTENDS Breaker, Json, IOUtils

Trace == ndJsonDeserialize(IOEnv.VERIF_TRACE)
VARIABLES l,      \* next line
          ph,     \* call -> "none" | "invoked" | "adm" | "rej" | "running" | "ended_ok" | "ended_fail" | "after"
          tickp,  \* a requested clock step has not yet been applied
          gave    \* this run is being skipped (the blind lane that carries validation on to the next run)
tvars == <<b, call, last, l, ph, tickp, gave>>

TInit == /\ b = B0 /\ call = [c \in Calls |-> "idle"] /\ last = [ev |-> "init"]
         /\ l = 1 /\ ph = [c \in Calls |-> "none"] /\ tickp = FALSE /\ gave = FALSE /\ TLCSet(1, 1)

Keep == last' = [ev |-> "trace"]
Consume == l' = l + 1

\* silent: beforeRequest of an invoked call
DoBefore(c) ==
   /\ ph[c] = "invoked"
   /\ LET s == BeginF(b, call, c) IN
        /\ b' = s.b /\ call' = s.call
        /\ ph' = [ph EXCEPT ![c] = IF s.res = "admitted" THEN "adm" ELSE "rej"]
   /\ ~gave /\ Keep /\ UNCHANGED <<l, tickp, gave>>
\* silent: afterRequest of a call whose f has returned
DoAfter(c) ==
   /\ ph[c] \in {"ended_ok", "ended_fail"}
   /\ LET s == EndF(b, call, c, ph[c] = "ended_ok") IN b' = s.b /\ call' = s.call
   /\ ph' = [ph EXCEPT ![c] = "after"]
   /\ ~gave /\ Keep /\ UNCHANGED <<l, tickp, gave>>
\* silent: the clock moves
DoTick == /\ tickp /\ tickp' = FALSE
          /\ LET s == TickF(b, call) IN b' = s.b /\ call' = s.call
          /\ ~gave /\ Keep /\ UNCHANGED <<l, ph, gave>>

Snap(bb) == [st |-> bb.st, cur |-> bb.cur, succ |-> bb.succ, fail |-> bb.fail, rem |-> bb.rem, gen |-> bb.gen]
\* the counters the statement's rules read: consecutive failures while closed (the trip rule), consecutive successes while
\* half-open (the reset rule). What an implementation keeps in the counter the current state does not read is its own business.
Read(bb) == [Snap(bb) EXCEPT !.succ = IF bb.st = "half" THEN bb.succ ELSE 0, !.fail = IF bb.st = "closed" THEN bb.fail ELSE 0]

\* Every run is followed on two lanes chosen at its reset line: the explaining lane (gave = FALSE), which
\* dies when no order of the silent steps explains the log, and a blind lane that merely consumes the
\* run's lines so that the runs after it are still validated.  A run is explained iff the explaining lane
\* reaches its "final" line with the recorded final state: that is printed and collected by bin/check.
Event ==
   /\ l <= Len(Trace)
   /\ LET r == Trace[l] IN
        IF r.ev = "reset" THEN
           /\ b' = B0 /\ call' = [c \in Calls |-> "idle"] /\ ph' = [c \in Calls |-> "none"] /\ tickp' = FALSE
           /\ gave' \in BOOLEAN
        ELSE IF gave THEN UNCHANGED <<b, call, ph, tickp, gave>>
        ELSE /\ UNCHANGED gave
             /\ CASE r.ev = "invoke" -> ph[r.c] = "none" /\ ph' = [ph EXCEPT ![r.c] = "invoked"] /\ UNCHANGED <<b, call, tickp>>
                  [] r.ev = "fstart" -> ph[r.c] = "adm" /\ ph' = [ph EXCEPT ![r.c] = "running"] /\ UNCHANGED <<b, call, tickp>>
                  [] r.ev = "fend" -> ph[r.c] = "running" /\ ph' = [ph EXCEPT ![r.c] = IF r.ok THEN "ended_ok" ELSE "ended_fail"] /\ UNCHANGED <<b, call, tickp>>
                  [] r.ev = "ret" -> /\ IF r.res = "rejected" THEN ph[r.c] = "rej" ELSE ph[r.c] = "after"
                                     /\ ph' = [ph EXCEPT ![r.c] = "none"] /\ UNCHANGED <<b, call, tickp>>
                  [] r.ev = "tickreq" -> ~tickp /\ tickp' = TRUE /\ UNCHANGED <<b, call, ph>>
                  [] r.ev = "tickdone" -> ~tickp /\ UNCHANGED <<b, call, ph, tickp>>
                  [] r.ev = "final" -> Read(Lazy(S0(b, call)).b) = Read(Lazy(S0(r.snap, call)).b) /\ PrintT(<<"EXPLAINED", l>>) /\ UNCHANGED <<b, call, ph, tickp>>
   /\ Keep /\ Consume

TNext == Event \/ DoTick \/ \E c \in Calls : DoBefore(c) \/ DoAfter(c)
TSpec == TInit /\ [][TNext]_tvars
Track == IF l > TLCGet(1) THEN TLCSet(1, l) ELSE TRUE
\* how far some explanation got; = Len(Trace) + 1 iff the whole log is explainable
HighWater == TLCGet(1)
Accepted == IF TLCGet(1) = Len(Trace) + 1 THEN TRUE ELSE PrintT(<<"STUCK", TLCGet(1)>>)
=============================================================================
