----------------------------- MODULE SSOLifeGen -----------------------------
(* Leg G: behaviours of the composed chain as event lists (random walks with *)
(* -simulate, or BFS emission for small bounds).  Only the inputs are        *)
(* emitted: what the chain answers is for the real chain to say.             *)
EXTENDS SSOLife, Json
VARIABLE hist
CONSTANT SimLen
Ev == CASE last'.ev = "login"   -> [ev |-> "login"]
        [] last'.ev = "advance" -> [ev |-> "advance", d |-> last'.d]
        [] last'.ev = "request" -> [ev |-> "request", req |-> last'.req]
        [] last'.ev = "env"     -> [ev |-> "env", what |-> last'.what, to |-> IF last'.what = "revoke" THEN "revoked" ELSE last'.to]
        [] last'.ev = "expire"  -> [ev |-> "expire"]
\* shaping of the walks (part of the next-state relation, so that -simulate spends its steps on requests):
\* the world changes one thing at a time between two observations, and only matters while a session exists
Quiet(e) == e \in {"env", "expire", "advance"}
Shape == /\ (Quiet(last.ev) /\ last.ev # "advance") => ~(Quiet(last'.ev) /\ last'.ev # "advance")
         /\ last.ev = "advance" => last'.ev # "advance"
         /\ (ck.kind # "sess" /\ last'.ev \in {"env", "expire"}) => (last'.ev = "env" /\ last'.what = "avail" /\ last'.to = "up")
GenNext == LNext /\ Shape /\ hist' = Append(hist, Ev)
GenSpec == LInit /\ hist = <<>> /\ [][GenNext]_<<lvars, hist>>
Emit == IF Len(hist') = SimLen THEN PrintT(<<"BEH", ToJson([pol |-> pol, evs |-> hist'])>>) ELSE TRUE
=============================================================================
