------------------------------ MODULE Breaker ------------------------------
(***************************************************************************)
(* The circuit breaker of internal/auth/circuit/breaker.go.                *)
(*                                                                         *)
(* One action per critical section: Begin(c) = beforeRequest (admit or     *)
(* reject, count), End(c, ok) = afterRequest (decrement, generation test,  *)
(* onSuccess / onFailure), Tick = the clock moves one unit.  The lazy      *)
(* open -> half-open change happens inside both critical sections          *)
(* (currentState()).  Relative encoding keeps the model finite: a running  *)
(* call is "fresh" (admitted in the current generation) or "stale";        *)
(* rem = remaining back-off units (the change to half-open is due when     *)
(* rem < 0, i.e. the clock is strictly after the deadline).                *)
(*                                                                         *)
(* The breaker state is one record b so that the critical sections are     *)
(* functions (BeginF / EndF / TickF) shared with BreakerTrace.tla.         *)
(***************************************************************************)
EXTENDS Integers, Sequences, FiniteSets, TLC

CONSTANTS Calls,      \* call slots (recycled)
          TripN,      \* ShouldTrip:  ConsecutiveFailures  >= TripN
          ResetN,     \* ShouldReset: ConsecutiveSuccesses >= ResetN
          Cap,        \* HalfOpenConcurrentRequests
          MaxCount,   \* counters saturate here (>= TripN, ResetN; only comparisons matter)
          MaxBackoff  \* BackoffDurationFunc(counts) = Min(1 + ConsecutiveFailures, MaxBackoff) units

Min(a, b) == IF a < b THEN a ELSE b
Sat(n) == Min(n, MaxCount)
Backoff(fail) == Min(1 + fail, MaxBackoff)

VARIABLES b,     \* [st, cur, succ, fail, rem, gen]   gen = generation (absolute; outside the VIEW)
          call,  \* call slot -> "idle" | "fresh" | "stale" | "done" | "rej"
          last   \* observation of the last step (outside the VIEW)
vars == <<b, call, last>>

Stale(cl) == [c \in DOMAIN cl |-> IF cl[c] = "fresh" THEN "stale" ELSE cl[c]]

\* setState: every change bumps the generation; callers' generations become stale
SetState(s, to) == IF s.b.st = to THEN s
                   ELSE [s EXCEPT !.b.st = to, !.b.gen = @ + 1, !.call = Stale(s.call), !.hooks = Append(@, <<s.b.st, to>>)]

\* currentState(): open -> half-open once the clock has passed the deadline
Lazy(s) == IF s.b.st = "open" /\ s.b.rem < 0 THEN SetState(s, "half") ELSE s

SetBackoff(s) == [s EXCEPT !.b.rem = Backoff(s.b.fail), !.backoffs = Append(@, Backoff(s.b.fail))]

S0(bb, cl) == [b |-> bb, call |-> cl, hooks |-> <<>>, backoffs |-> <<>>, res |-> "none"]

\* beforeRequest
BeginF(bb, cl, c) ==
   LET s == Lazy(S0(bb, cl)) IN
   IF s.b.st = "open" \/ (s.b.st = "half" /\ s.b.cur >= Cap)
   THEN [s EXCEPT !.call[c] = "rej", !.res = "rejected"]
   ELSE [s EXCEPT !.b.cur = @ + 1, !.call[c] = "fresh", !.res = "admitted"]

\* afterRequest(success, generation of the call)
EndF(bb, cl, c, ok) ==
   LET s0 == S0([bb EXCEPT !.cur = @ - 1], cl)
       wasFresh == cl[c] = "fresh"
       s1 == Lazy(s0)     \* may turn a fresh call stale
       fresh == s1.call[c] = "fresh"
       s2 == [s1 EXCEPT !.call[c] = "done", !.res = IF ok THEN "ok" ELSE "fail"]
   IN IF ~fresh THEN s2
      ELSE IF ok THEN
         LET s3 == [s2 EXCEPT !.b.succ = Sat(@ + 1), !.b.fail = 0] IN
         IF s3.b.st = "half" /\ s3.b.succ >= ResetN
         THEN [SetState(s3, "closed") EXCEPT !.b.succ = 0, !.b.fail = 0]
         ELSE s3
      ELSE
         LET s3 == [s2 EXCEPT !.b.fail = Sat(@ + 1), !.b.succ = 0] IN
         CASE s3.b.st = "closed" ->
                IF s3.b.fail >= TripN
                THEN SetBackoff([SetState(s3, "open") EXCEPT !.b.succ = 0, !.b.fail = 0])
                ELSE s3
           [] s3.b.st = "half" -> SetBackoff(SetState(s3, "open"))
           [] OTHER -> SetBackoff(s3)

TickF(bb, cl) == [S0(bb, cl) EXCEPT !.b.rem = IF @ < 0 THEN -1 ELSE @ - 1]

B0 == [st |-> "closed", cur |-> 0, succ |-> 0, fail |-> 0, rem |-> -1, gen |-> 0]

Init == /\ b = B0
        /\ call = [c \in Calls |-> "idle"]
        /\ last = [ev |-> "init"]

Apply(s, ev) == /\ b' = s.b /\ call' = s.call
                /\ last' = [ev |-> ev, res |-> s.res, hooks |-> s.hooks, backoffs |-> s.backoffs]

Begin(c) == call[c] = "idle" /\ Apply(BeginF(b, call, c), [op |-> "begin", c |-> c])
End(c, ok) == call[c] \in {"fresh", "stale"} /\ Apply(EndF(b, call, c, ok), [op |-> "end", c |-> c, ok |-> ok])
Tick == Apply(TickF(b, call), [op |-> "tick"])
Recycle(c) == call[c] \in {"done", "rej"} /\ call' = [call EXCEPT ![c] = "idle"] /\ UNCHANGED b
              /\ last' = [ev |-> [op |-> "recycle", c |-> c], res |-> "none", hooks |-> <<>>, backoffs |-> <<>>]

Next == \/ \E c \in Calls : Begin(c) \/ Recycle(c)
        \/ \E c \in Calls, ok \in BOOLEAN : End(c, ok)
        \/ Tick
Spec == Init /\ [][Next]_vars

View == <<[b EXCEPT !.gen = 0], call>>
-----------------------------------------------------------------------------
(* Properties, written from the statement over the breaker's visible state  *)

Running == { c \in Calls : call[c] \in {"fresh", "stale"} }
FreshRunning == { c \in Calls : call[c] = "fresh" }

TypeOK == /\ b.st \in {"closed", "open", "half"}
          /\ b.succ \in 0..MaxCount /\ b.fail \in 0..MaxCount /\ b.rem \in -1..MaxBackoff

\* the in-flight count is exactly the number of calls between admission and completion
InFlight == b.cur >= 0 /\ b.cur = Cardinality(Running)
\* half-open never has more than Cap calls of its own generation running
HalfOpenCap == b.st = "half" => Cardinality(FreshRunning) <= Cap
\* an open breaker holds no call of its own generation
OpenHoldsNone == b.st = "open" => FreshRunning = {}
\* counters only ever count calls of the current generation
CountersBounded == b.st = "open" => b.succ = 0

\* effective state a new arrival sees
Eff == IF b.st = "open" /\ b.rem < 0 THEN "half" ELSE b.st

IsBegin == last'.ev.op = "begin"
IsEnd == last'.ev.op = "end"

\* closed: every call is let through
ClosedAdmitsAll == [][(IsBegin /\ Eff = "closed") => last'.res = "admitted"]_vars
\* open, before the deadline: rejected without running, nothing changes
OpenRejects == [][(IsBegin /\ Eff = "open") => (last'.res = "rejected" /\ b' = b)]_vars
\* half-open: admitted iff fewer than Cap in flight
HalfOpenAdmission == [][(IsBegin /\ Eff = "half") => (last'.res = "admitted" <=> b.cur < Cap)]_vars
\* a completion of a call admitted before the latest state change affects nothing but the in-flight count
StaleIsInert ==
   [][(IsEnd /\ call[last'.ev.c] = "stale") =>
         LET z == Lazy(S0([b EXCEPT !.cur = @ - 1], call)) IN b' = z.b]_vars
\* closed -> open exactly when the trip rule holds on consecutive failures of the current generation
TripExactly ==
   [][(IsEnd /\ Eff = "closed" /\ call[last'.ev.c] = "fresh") =>
         (b'.st = "open" <=> (~last'.ev.ok /\ b.fail + 1 >= TripN))]_vars
\* half-open -> closed exactly when the reset rule holds; any failure re-opens with a new back-off
HalfOpenOutcome ==
   [][(IsEnd /\ Eff = "half" /\ b.st = "half" /\ call[last'.ev.c] = "fresh") =>
         /\ b'.st = "closed" <=> (last'.ev.ok /\ b.succ + 1 >= ResetN)
         /\ b'.st = "open" <=> ~last'.ev.ok
         /\ ~last'.ev.ok => (b'.rem = Backoff(b'.fail) /\ Len(last'.backoffs) = 1)]_vars
\* the generation moves exactly on state changes
GenerationOnChange == [][b'.gen # b.gen <=> b'.st # b.st]_vars
=============================================================================
