\* Leg M, real histories: every interleaving of Login / Advance / Request with every answer
SPECIFICATION Spec
CONSTANTS
  ValidTTL = 1
  GraceTTL = 2
  LifeTTL = 6
  Expiries = {1, 3}
  Forge = FALSE
INVARIANTS TypeOK LifeMatchesGhost ValidNeverLong GraceMatchesGhost
PROPERTIES StepOK
CHECK_DEADLOCK FALSE
VIEW View
