SPECIFICATION TSpec
CONSTANTS
  Callers = {1, 2, 3, 4}
  Eps = {"V", "R"}
  Subjs = {"a", "b"}
  MaxExec = 1000000
  MaxArr = 1000000
  LateJoin = TRUE
  FollowerKeepsStale = FALSE
  Coarse = FALSE
  Reuse = TRUE
CONSTRAINT Track
POSTCONDITION Accepted
CHECK_DEADLOCK FALSE
