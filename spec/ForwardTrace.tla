---------------------------- MODULE ForwardTrace ----------------------------
(***************************************************************************)
(* Leg V for Forward: every outcome observed at a real backend behind the  *)
(* real sso-proxy (one JSON object per line, written by harness/fw) is     *)
(* judged by the property rules of Forward.tla.  The mechanism's own       *)
(* outcome for the same cell is compared as drift only.                    *)
(* Line: [case, q, out]; out has the fields of Forward!NoOut.              *)
(***************************************************************************)
EXTENDS Forward, Json, IOUtils

Trace == ndJsonDeserialize(IOEnv.VERIF_TRACE)

VARIABLE l
tvars == <<q, s, pc, out, l>>

DriftOf(p, o) ==
   { f \in {"fwd", "id", "sessCookie", "others", "rsa", "hmac"} :
       CASE f = "fwd" -> p.fwd # o.fwd
         [] f = "id" -> p.fwd /\ o.fwd /\ \E h \in IdH : p.id[h] # o.id[h]
         [] f = "sessCookie" -> p.fwd /\ o.fwd /\ p.sessCookie # o.sessCookie
         [] f = "others" -> p.fwd /\ o.fwd /\ p.others # o.others
         \* without a signer / key a client's own Sso-Signature / Gap-Signature header travels on: outside the statement
         [] f = "rsa" -> p.fwd /\ o.fwd /\ p.rsa = "ok" /\ p.rsa # o.rsa
         [] f = "hmac" -> p.fwd /\ o.fwd /\ p.hmac = "ok" /\ p.hmac # o.hmac }

\* the driver's projection must stay inside the alphabet the rules are written over
Malformed(o) ==
   \/ \E h \in IdH : \E k \in 1..Len(o.id[h]) : o.id[h][k] \notin {"S", "E", "C", "I"}
   \/ \E k \in 1..Len(o.others) : o.others[k] \notin {"ok", "missing", "changed", "dup"}
   \/ o.rsa \notin {"ok", "bad", "nosig", "nokey", "na"}
   \/ o.hmac \notin {"ok", "bad", "nosig", "na"}

\* one short line per rule / field: TLC wraps tuples longer than a terminal line
Report(vs, dr) ==
   /\ \A n \in vs : PrintT(<<"VIOL", l, {n}>>)
   /\ \A f \in dr : PrintT(<<"DRIFT", l, {f}>>)

Dummy == CHOOSE c \in CellsId("preflight") : TRUE

TInit == /\ q = Dummy /\ s = Start(Dummy) /\ pc = 1 /\ out = NoOut /\ l = 1
         /\ TLCSet(1, 1)

TCell ==
   /\ l <= Len(Trace)
   /\ LET r == Trace[l] IN
        /\ Report(Violated(r.q, r.out) \cup (IF Malformed(r.out) THEN {"HARNESS_Projection"} ELSE {}),
                  DriftOf(Outcome(r.q), r.out))
        /\ q' = r.q /\ out' = r.out
   /\ UNCHANGED <<s, pc>>
   /\ l' = l + 1

TSpec == TInit /\ [][TCell]_tvars

Track == IF l > TLCGet(1) THEN TLCSet(1, l) ELSE TRUE
Accepted == TLCGet(1) = Len(Trace) + 1
=============================================================================
