\* as implemented: both CSRF bindings in place
SPECIFICATION Spec
CONSTANTS
  MaxFlows = 3
  MaxNonces = 3
  CheckProxyCSRF = TRUE
  CheckAuthNonce = TRUE
INVARIANTS TypeOK NoLoginCSRF E2EMediation CodesStayHome
PROPERTIES SignOutWorks
VIEW View
CHECK_DEADLOCK FALSE
