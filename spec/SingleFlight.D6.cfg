\* the generic group and the wrappers as the property demands them (followers receive the updates)
SPECIFICATION Spec
CONSTANTS
  Callers = {1, 2, 3}
  Eps = {"V", "R"}
  Subjs = {"a", "b"}
  MaxExec = 3
  MaxArr = 4
  LateJoin = TRUE
  FollowerKeepsStale = TRUE
  Coarse = FALSE
  Reuse = FALSE
INVARIANTS TypeOK OneExecPerKey JoinersGetThatResult DifferentNeverMerged LeaderCountsJoiners FollowerCountZero MergedCallersEndEqual
PROPERTIES FreshAfterCleanup
CHECK_DEADLOCK FALSE
