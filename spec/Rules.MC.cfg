\* Leg M: the documented semantics (no departure): the verdict is Admit at every phase
SPECIFICATION Spec
CONSTANTS
  PerRequestAllOf = FALSE
  RevalidationNeedsGroup = FALSE
  StarEntryIsSuffix = FALSE
INVARIANTS TypeOK VerdictIsAdmit PhaseIndependent EmptyAdmitsNobody NoLaterAdmitWithoutLogin
PROPERTIES StepOK
CHECK_DEADLOCK FALSE
