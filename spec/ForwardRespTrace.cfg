SPECIFICATION TSpec
CONSTANTS
  D7Fixed = TRUE
CONSTRAINT Track
POSTCONDITION Accepted
CHECK_DEADLOCK FALSE
