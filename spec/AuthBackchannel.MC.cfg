\* Leg M: every cell of the decision table, walked gate by gate
SPECIFICATION Spec
INVARIANTS TypeOK WalkIsRespond GatesImplyCredentials
PROPERTIES StepOK
CHECK_DEADLOCK FALSE
