------------------------- MODULE AuthBackchannelGen -------------------------
(* Leg G: emit every cell of AuthBackchannel with the mechanism's prediction. *)
EXTENDS AuthBackchannel, Json

Emit ==
   IF done' /\ ~done
   THEN PrintT(<<"CELL", ToJson([c |-> cell, pred |-> out'])>>)
   ELSE TRUE
=============================================================================
