----------------------------- MODULE GroupFill -----------------------------
(***************************************************************************)
(* The fill cache of group member lists (internal/pkg/groups/fillcache.go) *)
(* and the membership question answered from it                            *)
(* (GoogleProvider / AmazonCognitoProvider.ValidateGroupMembership).       *)
(*                                                                         *)
(* Critical sections of FillCache, one action each:                        *)
(*   UpdateBegin(t, g)  lock; bounce if a fill for g is in flight, else    *)
(*                      mark in flight; unlock                             *)
(*   FillRead(t)        the fill function asks the directory (outside the  *)
(*                      lock): listing | error | group not found           *)
(*   UpdateEnd(t)       lock; clear in flight; store / keep / drop; unlock *)
(*   LoopStart(g)       RefreshLoop: register one loop per group and spawn *)
(*                      its goroutine (first an Update, then one per tick) *)
(*   LoopUpdate(g), Tick(g), Stop, LoopExit(g)                             *)
(*   Ask(u, G)          membership question: all groups cached -> from the *)
(*                      cache; otherwise start loops for the uncached ones *)
(*                      and ask the directory                              *)
(* Directory truth changes by DirChange.  Ghost `said` records every        *)
(* listing the directory ever gave per group.                              *)
(***************************************************************************)
EXTENDS Integers, FiniteSets, Sequences, TLC

CONSTANTS Users, Groups, Callers, MemberSets, Coarse   \* MemberSets: the member lists the directory may hold (subsets of Users)

Listing == [ex : BOOLEAN, mem : MemberSets \cup {{}}]
Missing == [ex |-> FALSE, mem |-> {}]
L(ms) == [ex |-> TRUE, mem |-> ms]
NoEntry == [has |-> FALSE, mem |-> {}]
Entry(ms) == [has |-> TRUE, mem |-> ms]

Threads == Callers \cup Groups      \* a loop goroutine is identified by its group

VARIABLES dir,       \* group -> Listing (the directory's truth)
          fc,        \* group -> NoEntry | Entry(members)         (FillCache.cache)
          inflight,  \* SUBSET Groups                             (FillCache.inflight)
          loops,     \* SUBSET Groups                             (FillCache.refreshLoopGroups)
          stopped,   \* stopCh closed
          th,        \* thread -> [pc, g, res]
          said,      \* ghost: group -> set of member sets the directory listed
          last       \* observation of the last step (outside the VIEW)
vars == <<dir, fc, inflight, loops, stopped, th, said, last>>

Idle == [pc |-> "idle", g |-> "none", res |-> "none", ms |-> {}]
Off == [pc |-> "off", g |-> "none", res |-> "none", ms |-> {}]

Init == /\ dir = [g \in Groups |-> Missing]
        /\ fc = [g \in Groups |-> NoEntry]
        /\ inflight = {} /\ loops = {} /\ stopped = FALSE
        /\ th = [t \in Threads |-> IF t \in Groups THEN Off ELSE Idle]
        /\ said = [g \in Groups |-> {}]
        /\ last = [op |-> "init"]

DirChange(g, l) == /\ dir[g] # l /\ dir' = [dir EXCEPT ![g] = l]
                   /\ last' = [op |-> "dir", g |-> g, ex |-> l.ex, mem |-> l.mem]
                   /\ UNCHANGED <<fc, inflight, loops, stopped, th, said>>

\* Update(g) by an explicit caller
UpdateBegin(t, g) ==
   /\ t \in Callers /\ th[t].pc = "idle"
   /\ IF g \in inflight
      THEN /\ last' = [op |-> "update", t |-> t, g |-> g, started |-> FALSE]
           /\ UNCHANGED <<inflight, th>>
      ELSE /\ inflight' = inflight \cup {g}
           /\ th' = [th EXCEPT ![t] = [Idle EXCEPT !.pc = "fill", !.g = g]]
           /\ last' = [op |-> "update", t |-> t, g |-> g, started |-> TRUE]
   /\ UNCHANGED <<dir, fc, loops, stopped, said>>

\* the fill function reads the directory now; res in ok | err | notfound
FillRead(t, fail) ==
   /\ th[t].pc = "fill"
   /\ LET g == th[t].g
          res == IF fail THEN "err" ELSE IF dir[g].ex THEN "ok" ELSE "notfound"
      IN /\ th' = [th EXCEPT ![t].pc = "filled", ![t].res = res, ![t].ms = IF res = "ok" THEN dir[g].mem ELSE {}]
         /\ said' = IF res = "ok" THEN [said EXCEPT ![g] = @ \cup {dir[g].mem}] ELSE said
         /\ last' = [op |-> "fill", t |-> t, g |-> g, res |-> res, mem |-> IF res = "ok" THEN dir[g].mem ELSE {}]
   /\ UNCHANGED <<dir, fc, inflight, loops, stopped>>

UpdateEnd(t) ==
   /\ th[t].pc = "filled"
   /\ LET g == th[t].g IN
        /\ inflight' = inflight \ {g}
        /\ fc' = CASE th[t].res = "ok" -> [fc EXCEPT ![g] = Entry(th[t].ms)]
                   [] th[t].res = "notfound" -> [fc EXCEPT ![g] = NoEntry]
                   [] OTHER -> fc
        /\ th' = [th EXCEPT ![t] = IF t \in Groups THEN [Off EXCEPT !.pc = "wait", !.g = g] ELSE Idle]
        /\ last' = [op |-> "end", t |-> t, g |-> g, res |-> th[t].res]
   /\ UNCHANGED <<dir, loops, stopped, said>>

\* RefreshLoop(g): at most one loop per group
Register(gs) == /\ loops' = loops \cup gs
                /\ th' = [t \in Threads |-> IF t \in gs THEN [Off EXCEPT !.pc = "first", !.g = t] ELSE th[t]]
LoopStart(g) ==
   /\ IF g \in loops
      THEN /\ last' = [op |-> "loop", g |-> g, started |-> FALSE] /\ UNCHANGED <<loops, th>>
      ELSE /\ th[g].pc = "off"
           /\ Register({g}) /\ last' = [op |-> "loop", g |-> g, started |-> TRUE]
   /\ UNCHANGED <<dir, fc, inflight, stopped, said>>

\* the loop goroutine calls Update(g): first thing after start, and on every tick
LoopUpdate(g) ==
   /\ th[g].pc \in {"first", "tick"}
   /\ IF g \in inflight
      THEN th' = [th EXCEPT ![g].pc = "wait"] /\ UNCHANGED inflight
      ELSE inflight' = inflight \cup {g} /\ th' = [th EXCEPT ![g].pc = "fill"]
   /\ last' = [op |-> "loopupdate", g |-> g, started |-> g \notin inflight]
   /\ UNCHANGED <<dir, fc, loops, stopped, said>>

Tick(g) == /\ th[g].pc = "wait"
           /\ th' = [th EXCEPT ![g].pc = "tick"]
           /\ last' = [op |-> "tick", g |-> g]
           /\ UNCHANGED <<dir, fc, inflight, loops, stopped, said>>

Stop == /\ ~stopped /\ stopped' = TRUE
        /\ last' = [op |-> "stop"]
        /\ UNCHANGED <<dir, fc, inflight, loops, th, said>>

LoopExit(g) == /\ th[g].pc = "wait" /\ stopped
               /\ th' = [th EXCEPT ![g] = Off] /\ loops' = loops \ {g}
               /\ last' = [op |-> "loopexit", g |-> g]
               /\ UNCHANGED <<dir, fc, inflight, stopped, said>>

\* the membership question (Google): cached -> from the cache, else loops for the uncached + directory
Cached(G) == \A g \in G : fc[g].has
FromCache(u, G) == { g \in G : u \in fc[g].mem }
FromDir(u, G) == { g \in G : dir[g].ex /\ u \in dir[g].mem }
Ask(u, G, fail) ==
   /\ G # {}
   /\ IF Cached(G)
      THEN /\ ~fail
           /\ last' = [op |-> "ask", u |-> u, G |-> G, src |-> "cache", ans |-> FromCache(u, G), err |-> FALSE]
           /\ UNCHANGED <<loops, th>>
      ELSE /\ \A g \in G : (~fc[g].has /\ g \notin loops) => th[g].pc = "off"
           /\ Register({ g \in G : ~fc[g].has /\ g \notin loops })
           /\ last' = [op |-> "ask", u |-> u, G |-> G, src |-> "dir", ans |-> IF fail THEN {} ELSE FromDir(u, G), err |-> fail]
   /\ UNCHANGED <<dir, fc, inflight, stopped, said>>

Get(g) == /\ last' = [op |-> "get", g |-> g, has |-> fc[g].has, mem |-> fc[g].mem]
          /\ UNCHANGED <<dir, fc, inflight, loops, stopped, th, said>>

\* Coarse = TRUE restricts the model to behaviours whose steps can be gated one at a time in the real
\* FillCache: the store follows the fill function's return at once, a loop goroutine's Update follows its
\* start at once and always finds the group free, and tickers do not fire.
Pending == \E t \in Threads : th[t].pc = "filled"
LoopPending == \E g \in Groups : th[g].pc \in {"first", "tick"}
ExitPending == stopped /\ \E g \in Groups : th[g].pc = "wait"
CoarseOK(kind, gs) ==
   ~Coarse \/ CASE kind = "end" -> TRUE
                 [] kind = "loopupdate" -> ~Pending
                 [] kind = "loopexit" -> ~Pending /\ ~LoopPending
                 [] kind = "tick" -> FALSE
                 [] kind = "loopstart" -> ~Pending /\ ~LoopPending /\ ~ExitPending /\ gs \cap inflight = {}
                 [] OTHER -> ~Pending /\ ~LoopPending /\ ~ExitPending

Next ==
   \/ \E g \in Groups, l \in Listing : ((l.ex \/ l = Missing) /\ CoarseOK("dir", {})) /\ DirChange(g, l)
   \/ \E t \in Callers, g \in Groups : CoarseOK("update", {}) /\ UpdateBegin(t, g)
   \/ \E t \in Threads, f \in BOOLEAN : CoarseOK("fill", {}) /\ FillRead(t, f)
   \/ \E t \in Threads : UpdateEnd(t)
   \/ \E g \in Groups : CoarseOK("loopstart", {g}) /\ LoopStart(g)
   \/ \E g \in Groups : CoarseOK("loopupdate", {}) /\ LoopUpdate(g)
   \/ \E g \in Groups : CoarseOK("tick", {}) /\ Tick(g)
   \/ \E g \in Groups : CoarseOK("loopexit", {}) /\ LoopExit(g)
   \/ \E g \in Groups : CoarseOK("get", {}) /\ Get(g)
   \/ CoarseOK("stop", {}) /\ Stop
   \/ \E u \in Users, G \in SUBSET Groups, f \in BOOLEAN :
         CoarseOK("loopstart", { g \in G : ~fc[g].has /\ g \notin loops }) /\ Ask(u, G, f)
Spec == Init /\ [][Next]_vars
View == <<dir, fc, inflight, loops, stopped, th, said>>
-----------------------------------------------------------------------------
(* Properties *)

Filling(g) == { t \in Threads : th[t].pc \in {"fill", "filled"} /\ th[t].g = g }
\* at most one fill per group at a time, and the in-flight marker says exactly that
OneFillPerGroup == \A g \in Groups : Cardinality(Filling(g)) <= 1 /\ (g \in inflight <=> Filling(g) # {})
\* at most one loop per group exists until stopped
OneLoopPerGroup == \A g \in Groups : g \in loops <=> th[g].pc # "off"
\* the cache only holds listings the directory gave for that group
CacheOnlyWhatWasSaid == \A g \in Groups : fc[g].has => fc[g].mem \in said[g]

IsEnd == last'.op = "end"
\* success replaces with that fill's listing, failure keeps, not-found drops
SuccessReplaces == [][(IsEnd /\ last'.res = "ok") => fc'[last'.g] = Entry(th[last'.t].ms)]_vars
FailureKeeps == [][(IsEnd /\ last'.res = "err") => fc' = fc]_vars
NotFoundDrops == [][(IsEnd /\ last'.res = "notfound") => fc'[last'.g] = NoEntry]_vars
\* an answer from the cache is, per group, what some listing the directory gave says about that user;
\* a partly cached question is answered by the directory
AnswerOnlyWhatWasSaid ==
   [][last'.op = "ask" =>
        IF last'.src = "cache"
        THEN /\ \A g \in last'.G : fc[g].has
             /\ \A g \in last'.G : \E ms \in said[g] : (g \in last'.ans <=> last'.u \in ms)
        ELSE /\ \E g \in last'.G : ~fc[g].has
             /\ (~last'.err => last'.ans = FromDir(last'.u, last'.G))]_vars
TypeOK == /\ inflight \subseteq Groups /\ loops \subseteq Groups
=============================================================================
