------------------------------ MODULE SignOut ------------------------------
(***************************************************************************)
(* Sign-out across both services: sso-proxy /oauth2/sign_out               *)
(* (oauthproxy.go:292-313, providers/sso.go:421-440), sso-auth /sign_out   *)
(* GET and POST (authenticator.go:366-455, gates in middleware.go), the    *)
(* identity provider's revoke, and what becomes of a saved copy of the old *)
(* proxy session afterwards.                                               *)
(*                                                                         *)
(* State: the browser's two cookies, the token family at the IdP, whether  *)
(* a revalidation of the saved proxy session is due.                       *)
(***************************************************************************)
EXTENDS Integers, Sequences, TLC

SigClasses == {"valid", "stale", "foreign", "tampered", "missing", "offdomain"}
RevokeOutcomes == {"ok", "already", "error", "unavail"}

VARIABLES pc,     \* proxy cookie in the browser: "sess" | "none"
          ac,     \* authenticator cookie in the browser: "sess" | "forged" | "none"
          fam,    \* the session's token family at the identity provider: "valid" | "revoked"
          due,    \* the saved copy of the old proxy session is past its validity TTL
          n,      \* steps taken (bound)
          last    \* observation of the last step
vars == <<pc, ac, fam, due, n, last>>

CONSTANT MaxSteps

Init == pc = "sess" /\ ac = "sess" /\ fam = "valid" /\ due = FALSE /\ n = 0 /\ last = [op |-> "login"]

Tick == n < MaxSteps /\ n' = n + 1

\* the proxy clears its cookie and sends the browser to the authenticator with a signed same-host return address
ProxySignOut ==
   /\ Tick /\ pc' = "none"
   /\ last' = [op |-> "psignout", status |-> 302, cleared |-> TRUE, accepted |-> TRUE, samehost |-> TRUE]
   /\ UNCHANGED <<ac, fam, due>>

\* GET /sign_out at the authenticator: gates, then the confirmation page (or straight back when nobody is signed in)
AuthGet(sig) ==
   /\ Tick
   /\ last' = [op |-> "aget", sig |-> sig,
               status |-> IF sig # "valid" THEN 400 ELSE IF ac = "sess" THEN 200 ELSE 302,
               revoke |-> FALSE, cleared |-> FALSE, back |-> sig = "valid" /\ ac # "sess"]
   /\ UNCHANGED <<pc, ac, fam, due>>

\* POST /sign_out: gates; load cookie; revoke at the IdP; only then clear and return
AuthPost(sig, rev) ==
   /\ Tick
   /\ rev = "already" => fam = "revoked"
   /\ rev = "ok" => fam = "valid"
   /\ IF sig # "valid" THEN
         /\ last' = [op |-> "apost", sig |-> sig, rev |-> rev, status |-> 400, revoke |-> FALSE, cleared |-> FALSE, back |-> FALSE]
         /\ UNCHANGED <<ac, fam>>
      ELSE IF ac = "none" THEN
         /\ last' = [op |-> "apost", sig |-> sig, rev |-> rev, status |-> 302, revoke |-> FALSE, cleared |-> FALSE, back |-> TRUE]
         /\ UNCHANGED <<ac, fam>>
      ELSE IF ac = "forged" THEN
         /\ ac' = "none" /\ UNCHANGED fam
         /\ last' = [op |-> "apost", sig |-> sig, rev |-> rev, status |-> 302, revoke |-> FALSE, cleared |-> TRUE, back |-> TRUE]
      ELSE IF rev \in {"ok", "already"} THEN
         /\ ac' = "none" /\ fam' = "revoked"
         /\ last' = [op |-> "apost", sig |-> sig, rev |-> rev, status |-> 302, revoke |-> TRUE, cleared |-> TRUE, back |-> TRUE]
      ELSE
         /\ UNCHANGED <<ac, fam>>
         /\ last' = [op |-> "apost", sig |-> sig, rev |-> rev, status |-> 500, revoke |-> TRUE, cleared |-> FALSE, back |-> FALSE]
   /\ UNCHANGED <<pc, due>>

LoseAuthCookie(to) == /\ Tick /\ ac = "sess" /\ ac' = to /\ last' = [op |-> "setac", to |-> to] /\ UNCHANGED <<pc, fam, due>>
Advance == /\ Tick /\ ~due /\ due' = TRUE /\ last' = [op |-> "advance"] /\ UNCHANGED <<pc, ac, fam>>

\* a saved copy of the proxy session obtained at login is presented again
ReuseOld ==
   /\ Tick
   /\ last' = [op |-> "reuse", due |-> due, served |-> ~due \/ fam = "valid", cleared |-> due /\ fam = "revoked"]
   /\ UNCHANGED <<pc, ac, fam, due>>

Next == \/ ProxySignOut
        \/ \E s \in SigClasses : AuthGet(s)
        \/ \E s \in SigClasses, r \in RevokeOutcomes : AuthPost(s, r)
        \/ \E t \in {"forged", "none"} : LoseAuthCookie(t)
        \/ Advance \/ ReuseOld
Spec == Init /\ [][Next]_vars
View == <<pc, ac, fam, due, n>>
-----------------------------------------------------------------------------
(* Rules over one step: pre-state (unprimed) and the observation o = last'   *)
Violated(pre_ac, pre_fam, o) ==
   { r \in {"C19_ProxyCleared", "C19_SignedSameHost", "C19_GatedSignOut", "C19_RevokeBeforeClear", "C19_FailureKeepsSession", "C19_OldCookieDies"} :
       CASE r = "C19_ProxyCleared" -> o.op = "psignout" /\ ~o.cleared
         [] r = "C19_SignedSameHost" -> o.op = "psignout" /\ ~(o.accepted /\ o.samehost)
         [] r = "C19_GatedSignOut" -> o.op \in {"aget", "apost"} /\ o.sig # "valid" /\ (o.revoke \/ o.cleared \/ o.back)
         [] r = "C19_RevokeBeforeClear" -> o.op = "apost" /\ pre_ac = "sess" /\ o.cleared /\ ~(o.revoke /\ o.rev \in {"ok", "already"})
         [] r = "C19_FailureKeepsSession" -> o.op = "apost" /\ o.sig = "valid" /\ pre_ac = "sess" /\ o.rev \in {"error", "unavail"} /\ (o.cleared \/ o.back \/ o.status < 400)
         [] r = "C19_OldCookieDies" -> o.op = "reuse" /\ o.due /\ pre_fam = "revoked" /\ o.served }
StepOK == [][Violated(ac, fam, last') = {}]_vars
\* after a confirmed sign-out the token family is revoked
SignedOutMeansRevoked == (last.op = "apost" /\ last.cleared /\ last.revoke) => fam = "revoked"
=============================================================================
