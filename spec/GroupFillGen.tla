---------------------------- MODULE GroupFillGen ----------------------------
(* Leg G: gateable behaviours of GroupFill (Coarse = TRUE) as event lists.    *)
EXTENDS GroupFill, Json
VARIABLE hist
SetToSeq(S) == IF S = {} THEN <<>> ELSE LET RECURSIVE F(_) F(T) == IF T = {} THEN <<>> ELSE LET x == CHOOSE y \in T : TRUE IN <<x>> \o F(T \ {x}) IN F(S)
Clean(r) == [k \in DOMAIN r |-> IF k \in {"mem", "G", "ans"} THEN SetToSeq(r[k]) ELSE r[k]]
\* generated behaviours do not ask a stopped cache for a loop (the statement speaks of loops "until stopped";
\* the model itself keeps the step, Leg M covers it)
NoLoopOnStopped == ~(stopped /\ last'.op \in {"loop", "ask"})   \* a membership question starts loops for uncached groups
GenNext == Next /\ NoLoopOnStopped /\ hist' = Append(hist, Clean(last'))
GenSpec == Init /\ hist = <<>> /\ [][GenNext]_<<vars, hist>>
Quiet == \A t \in Threads : th'[t].pc \in {"idle", "off", "wait"}
Emit == IF Quiet /\ Len(hist') > 0 THEN PrintT(<<"BEH", ToJson(hist')>>) ELSE TRUE
=============================================================================
