---------------------------- MODULE GroupFillGen ----------------------------
(* Leg G: gateable behaviours of GroupFill (Coarse = TRUE) as event lists.    *)
EXTENDS GroupFill, Json
VARIABLE hist
SetToSeq(S) == IF S = {} THEN <<>> ELSE LET RECURSIVE F(_) F(T) == IF T = {} THEN <<>> ELSE LET x == CHOOSE y \in T : TRUE IN <<x>> \o F(T \ {x}) IN F(S)
Clean(r) == [k \in DOMAIN r |-> IF k \in {"mem", "G", "ans"} THEN SetToSeq(r[k]) ELSE r[k]]
\* generated behaviours do not ask a stopped cache for a loop (the statement speaks of loops "until stopped";
\* the model itself keeps the step, Leg M covers it)
NoLoopOnStopped == ~(stopped /\ last'.op \in {"loop", "ask"})   \* a membership question starts loops for uncached groups
GenNext == Next /\ NoLoopOnStopped /\ hist' = Append(hist, Clean(last'))
GenSpec == Init /\ hist = <<>> /\ [][GenNext]_<<vars, hist>>
Quiet == \A t \in Threads : th'[t].pc \in {"idle", "off", "wait"}
Emit == IF Quiet /\ Len(hist') > 0 THEN PrintT(<<"BEH", ToJson(hist')>>) ELSE TRUE
\* simulation (tlc -simulate): deep random behaviours, printed each time they come to rest beyond SimLen steps.
\* The breadth-first emission above gives, per state of the VIEW, the SHORTEST behaviour that reaches it: a step that
\* leaves the VIEW unchanged (a failed fetch, a failed fill) is never part of one, so what comes AFTER such a step
\* is only exercised by these walks.
CONSTANT SimLen
EmitSim == IF Quiet /\ Len(hist') >= SimLen THEN PrintT(<<"BEH", ToJson(hist')>>) ELSE TRUE
=============================================================================
