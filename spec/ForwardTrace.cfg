SPECIFICATION TSpec
CONSTANTS
  Order = "code"
  D1Fixed = TRUE
  HopSafe = TRUE
  CLNormalised = TRUE
  BigBodies = TRUE
  Families = {"id", "sig", "hop", "inj"}
CONSTRAINT Track
POSTCONDITION Accepted
CHECK_DEADLOCK FALSE
