SPECIFICATION TSpec
CONSTANTS
  Order = "code"
  D1Fixed = TRUE
  CLNormalised = TRUE
  BigBodies = TRUE
  Families = {"id", "sig"}
CONSTRAINT Track
POSTCONDITION Accepted
CHECK_DEADLOCK FALSE
