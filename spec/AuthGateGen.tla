----------------------------- MODULE AuthGateGen -----------------------------
(* Leg G: emit every cell of AuthGate (an initial state) together with the   *)
(* mechanism's prediction, when its walk down the gate chain ends.           *)
EXTENDS AuthGate, Json

Emit ==
   IF done' /\ ~done
   THEN PrintT(<<"CELL", ToJson([c |-> cell, pred |-> out'])>>)
   ELSE TRUE
=============================================================================
