\* Leg M of the composed chain: every interleaving of login / time / requests with every IdP event
SPECIFICATION LSpec
CONSTANTS
  ValidTTL = 2
  GraceTTL = 1
  LifeTTL = 6
  Expiries = {1, 2}
  TokTTL = 1
  LenientValidate = FALSE
  Forge = FALSE
INVARIANTS LTypeOK TypeOK RevokedSessionIsYoung
PROPERTIES LStepOK
VIEW LView
CHECK_DEADLOCK FALSE
