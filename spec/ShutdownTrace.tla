---------------------------- MODULE ShutdownTrace ----------------------------
(* Leg V for Shutdown.tla: behaviours replayed against the real                *)
(* httpserver.Run (handlers gated by the harness, a real SIGTERM), every step  *)
(* judged in the state the specification is in.  After a violation the rest of *)
(* the behaviour is skipped (lost).                                            *)
EXTENDS ShutdownMC, Json, IOUtils
Trace == ndJsonDeserialize(IOEnv.VERIF_TRACE)
CONSTANTS TimeoutMs, SlackMs
VARIABLES l, lost
tvars == <<vars, l, lost>>

Viol(r) ==
   CASE r.ev = "arrive" ->
          (IF r.accepted /\ phase # "serving" THEN {"X01_NobodyAcceptedAfterSignal"} ELSE {})
          \cup (IF ~r.accepted /\ phase = "serving" THEN {"X01_RefusedWhileServing"} ELSE {})
     [] r.ev = "finish" -> IF ~r.complete THEN {"X01_NeverCut"} ELSE {}
     [] r.ev = "return" ->
          (IF r.result = "nil" /\ inflight # {} THEN {"X01_NilMeansDrained"} ELSE {})
          \cup (IF r.result = "deadline" /\ (inflight = {} \/ r.afterms < TimeoutMs - SlackMs) THEN {"X01_DeadlineOnlyAfterTheTimeout"} ELSE {})
          \cup (IF r.result = "deadline" /\ r.afterms > TimeoutMs + 3 * SlackMs THEN {"X01_ReturnsByTheDeadline"} ELSE {})
          \cup (IF r.result \notin {"nil", "deadline"} THEN {"X01_ReturnsByTheDeadline"} ELSE {})
          \cup (IF phase # "draining" THEN {"X01_ReturnsOnlyAfterSignal"} ELSE {})
     [] OTHER -> {}

Act(r) ==
   CASE r.ev = "arrive" -> Arrive(r.r)
     [] r.ev = "finish" -> Finish(r.r)
     [] r.ev = "signal" -> Signal
     [] r.ev = "return" -> IF r.result = "nil" THEN Drained ELSE Deadline

TInit == Init /\ l = 1 /\ lost = FALSE /\ TLCSet(1, 1)
TStep ==
   /\ l <= Len(Trace)
   /\ LET r == Trace[l] IN
        IF r.ev = "reset" THEN
           /\ phase' = "serving" /\ inflight' = {} /\ outcome' = [q \in MCReqs |-> "none"] /\ result' = "none" /\ atSignal' = {}
           /\ last' = [ev |-> "start"] /\ lost' = FALSE
        ELSE IF lost THEN UNCHANGED <<vars, lost>>
        ELSE LET vs == Viol(r) IN
             /\ IF vs = {} THEN TRUE ELSE PrintT(<<"VIOL", l, vs>>)
             /\ IF vs = {} THEN Act(r) /\ lost' = FALSE ELSE UNCHANGED vars /\ lost' = TRUE
   /\ l' = l + 1
TSpec == TInit /\ [][TStep]_tvars
Track == IF l > TLCGet(1) THEN TLCSet(1, l) ELSE TRUE
Accepted == TLCGet(1) = Len(Trace) + 1
=============================================================================
