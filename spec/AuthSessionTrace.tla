------------------------- MODULE AuthSessionTrace -------------------------
(***************************************************************************)
(* Leg V for AuthSession: every step recorded from the real sso-auth is    *)
(* judged by the property-level rules of AuthSession.tla.                  *)
(*                                                                         *)
(* Events (one JSON object per line, written by harness/as):               *)
(*   signin   a forged cookie + one /sign_in (one-step cell)               *)
(*   callback one /callback over a real socket after a genuine /start      *)
(*   redeem   one direct provider.Redeem                                   *)
(*   reset    start of a real history: provider and rule                   *)
(*   start    a real /start                                                *)
(*   login    the real /callback of a history (genuine or hostile)         *)
(*   advance  the browser's cookie was time-shifted by d units             *)
(*   visit    one /sign_in of the history with the cookie carried forward  *)
(* The state follows what the implementation actually did (the cookie it   *)
(* actually set); the ghost is the time since the login that stamped the   *)
(* lifetime.                                                               *)
(***************************************************************************)
EXTENDS AuthSession, Json, IOUtils

Trace == ndJsonDeserialize(IOEnv.VERIF_TRACE)

VARIABLE l
tvars == <<ck, cfg, gh, last, l>>

SeqToSet(s) == { s[i] : i \in DOMAIN s }
ObsS(o) == [o EXCEPT !.calls = SeqToSet(o.calls)]

\* observables the statement leaves open: compared with the mechanism's prediction as drift only
DriftS(pred, o) ==
   { f \in {"kind", "status", "after", "calls"} :
       CASE f = "kind" -> pred.kind # o.kind
         [] f = "status" -> pred.status # o.status
         [] f = "after" -> pred.after # o.after
         [] f = "calls" -> pred.calls # o.calls }
DriftC(pred, o) ==
   \* short names (kind, status, session, its email class, its lifetime, Location) keep the printed tuple on one line
   { f \in {"cb_k", "cb_st", "cb_se", "cb_em", "cb_li", "cb_lo"} :
       CASE f = "cb_k" -> pred.kind # o.kind
         [] f = "cb_st" -> pred.status # o.status
         [] f = "cb_se" -> pred.sess # o.sess
         [] f = "cb_em" -> pred.sessEmail # o.sessEmail
         [] f = "cb_li" -> pred.sessLife # o.sessLife
         [] f = "cb_lo" -> pred.locSame # o.locSame }
DriftR(pred, o) == IF pred.res # o.res THEN {"redeem_res"} ELSE {}

\* one rule per printed tuple: TLC wraps long values over several lines, which the reader of the output does not join
Report(vs, dr) ==
   /\ \A n \in vs : PrintT(<<"VIOL", l, {n}>>)
   /\ IF dr = {} THEN TRUE ELSE PrintT(<<"DRIFT", l, dr>>)

TInit == /\ ck = NoCookie /\ cfg = [prov |-> "google", pol |-> "domains"] /\ gh = NoGhosts /\ last = NoStep /\ l = 1
         /\ TLCSet(1, 1)

Ev(e) == l <= Len(Trace) /\ Trace[l].ev = e

TSignIn ==
   /\ Ev("signin")
   /\ LET r == Trace[l]
          o == ObsS(r.out)
          g == GhostsOfForged(r.c)
      IN /\ Report(SignInViolated(g, r.c, r.ans, o), DriftS(SignInStep(r.c, r.ans), o))
         /\ ck' = o.after /\ cfg' = r.cfg /\ gh' = StepGhosts(g, o) /\ last' = [ev |-> "signin"]
   /\ l' = l + 1

TCallback ==
   /\ Ev("callback")
   /\ LET r == Trace[l] IN
        /\ Report(CallbackViolated(r.cfg.prov, r.rel, r.tok, r.ui, r.out),
                  DriftC(CallbackStep(r.cfg.prov, r.rel, r.redir, r.em, r.tok, r.ui), r.out))
        /\ cfg' = r.cfg /\ last' = [ev |-> "callback"]
   /\ ck' = NoCookie /\ gh' = NoGhosts
   /\ l' = l + 1

TRedeem ==
   /\ Ev("redeem")
   /\ LET r == Trace[l] IN
        /\ Report(RedeemViolated(r.cfg.prov, r.tok, r.ui, r.out), DriftR(RD(Redeem(r.cfg.prov, r.tok, r.ui)), r.out))
        /\ cfg' = r.cfg /\ last' = [ev |-> "redeem"]
   /\ ck' = NoCookie /\ gh' = NoGhosts
   /\ l' = l + 1

TReset ==
   /\ Ev("reset")
   /\ ck' = NoCookie /\ cfg' = Trace[l].cfg /\ gh' = NoGhosts /\ last' = [ev |-> "reset"]
   /\ l' = l + 1

TStart ==
   /\ Ev("start")
   /\ Report(StartViolated(Trace[l].out), IF Trace[l].out # StartStep THEN {"start"} ELSE {})
   /\ last' = [ev |-> "start"]
   /\ UNCHANGED <<ck, cfg, gh>>
   /\ l' = l + 1

\* the real /callback of a history; a session that starts here starts the lifetime clock
TLogin ==
   /\ Ev("login")
   /\ LET r == Trace[l] IN
        /\ Report(CallbackViolated(cfg.prov, r.rel, r.tok, r.ui, r.out)
                    \cup (IF r.out.sess /\ r.ck.kind # "sess" THEN {"HARNESS_LoginProjection"} ELSE {}),
                  DriftC(CallbackStep(cfg.prov, r.rel, r.redir, r.em, r.tok, r.ui), r.out))
        /\ ck' = r.ck
        /\ gh' = IF r.out.sess THEN FreshGhosts ELSE NoGhosts
        /\ last' = [ev |-> "login"]
   /\ UNCHANGED cfg
   /\ l' = l + 1

TAdvance ==
   /\ Ev("advance")
   /\ ck' = AdvanceCookie(ck, Trace[l].d) /\ gh' = AdvanceGhosts(gh, Trace[l].d) /\ last' = [ev |-> "advance"]
   /\ UNCHANGED cfg
   /\ l' = l + 1

TVisit ==
   /\ Ev("visit")
   /\ LET r == Trace[l]
          o == ObsS(r.out)
      IN /\ Report(SignInViolated(gh, ck, r.ans, o) \cup (IF r.c # ck THEN {"HARNESS_CookieProjection"} ELSE {}),
                   DriftS(SignInStep(ck, r.ans), o))
         /\ ck' = o.after /\ gh' = StepGhosts(gh, o) /\ last' = [ev |-> "visit"]
   /\ UNCHANGED cfg
   /\ l' = l + 1

TNext == TSignIn \/ TCallback \/ TRedeem \/ TReset \/ TStart \/ TLogin \/ TAdvance \/ TVisit
TSpec == TInit /\ [][TNext]_tvars

Track == IF l > TLCGet(1) THEN TLCSet(1, l) ELSE TRUE
Accepted == TLCGet(1) = Len(Trace) + 1
=============================================================================
