----------------------------- MODULE ConfigGen -----------------------------
(* Leg G: every abstract document of Config.tla as JSON, with the           *)
(* mechanism's prediction whether it loads on either path.                  *)
EXTENDS Config, Json

ProdEnv(e) == (e \cap AllowF) \cup {"tmo", "slug"}

Emit ==
   PrintT(<<"CELL", ToJson([s |-> doc.s, env |-> doc.env,
                            predH |-> Respond(doc.s, doc.env, "hook").err,
                            predP |-> Respond(doc.s, ProdEnv(doc.env), "prod").err])>>)
=============================================================================
