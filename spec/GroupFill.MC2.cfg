SPECIFICATION Spec
CONSTANTS
  Users = {"u1", "u2"}
  Groups = {"g1", "g2"}
  Callers = {"t1", "t2"}
  MemberSets = {{}, {"u1"}}
  Coarse = FALSE
INVARIANTS TypeOK OneFillPerGroup OneLoopPerGroup CacheOnlyWhatWasSaid
PROPERTIES SuccessReplaces FailureKeeps NotFoundDrops AnswerOnlyWhatWasSaid
VIEW View
CHECK_DEADLOCK FALSE
