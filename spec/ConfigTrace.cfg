SPECIFICATION TSpec
CONSTANTS
  ClusterOptionsWholesale = FALSE
  Families = {}
CONSTRAINT Track
POSTCONDITION Accepted
CHECK_DEADLOCK FALSE
