\* Leg G (and Leg M in the same pass): every abstract document is emitted, and the mechanism's outcome is checked against the rules
SPECIFICATION Spec
CONSTANTS
  ClusterOptionsWholesale = FALSE
  Families = {"route"}
INVARIANTS TypeOK RulesHold
ACTION_CONSTRAINT Emit
CHECK_DEADLOCK FALSE
