----------------------------- MODULE BreakerGen -----------------------------
(* Leg G: behaviours of Breaker as event sequences. With hist outside the    *)
(* VIEW, Emit prints one JSON behaviour per generated transition of the      *)
(* view-reduced graph (BFS-shortest prefix + the step).  With -simulate the  *)
(* same module yields random deep behaviours (printed when they end).        *)
EXTENDS Breaker, Json

VARIABLE hist
GenInit == Init /\ hist = <<>>
GenNext == Next /\ hist' = Append(hist, last'.ev)
GenSpec == GenInit /\ [][GenNext]_<<vars, hist>>
Emit == PrintT(<<"BEH", ToJson(hist')>>)
\* simulation: print only complete walks of the requested length
CONSTANT SimLen
EmitSim == IF Len(hist') = SimLen THEN PrintT(<<"BEH", ToJson(hist')>>) ELSE TRUE
=============================================================================
