\* stage order permuted: TLC is EXPECTED to report SignedIsReceived violated (the rules discriminate)
SPECIFICATION Spec
CONSTANTS
  Order = "signFirst"
  D1Fixed = TRUE
  HopSafe = TRUE
  CLNormalised = TRUE
  BigBodies = FALSE
  Families = {"mini", "inj"}
INVARIANTS SignedIsReceived
CHECK_DEADLOCK FALSE
