\* Leg M: the algebra as the other specifications assume it (canonical decoder)
SPECIFICATION Spec
CONSTANTS
  LenientBase64 = FALSE
INVARIANTS TypeOK AxOpenIffGenuine AxNoDataOnError AxRoundTrip AxFresh AxOpaque AxUniform
PROPERTIES StepOK
CHECK_DEADLOCK FALSE
