-------------------------- MODULE AuthDispatchTrace --------------------------
(***************************************************************************)
(* Leg V for AuthDispatch: one line per request harness/ad sent to the     *)
(* real authenticator mux (+ fake IdP): c = the abstract cell, out = the   *)
(* observed status, the number of calls the fake IdP received, whether a   *)
(* Set-Cookie was sent.  Rules on the observation; the layer's status set  *)
(* is compared as drift.                                                   *)
(***************************************************************************)
EXTENDS AuthDispatch, Json, IOUtils

Trace == ndJsonDeserialize(IOEnv.VERIF_TRACE)

VARIABLE l
tvars == <<cell, out, done, l>>

Harness(c) == IF IsCell(c) THEN {} ELSE {"HARNESS_NotACell"}

Report(vs, dr) ==
   /\ \A v \in vs : PrintT(<<"VIOL", l, {v}>>)
   /\ IF dr = {} THEN TRUE ELSE PrintT(<<"DRIFT", l, dr>>)

TInit == cell = [host |-> "none"] /\ out = NoOut /\ done = FALSE /\ l = 1 /\ TLCSet(1, 1)

TCell ==
   /\ l <= Len(Trace)
   /\ LET c == Trace[l].c
          o == Trace[l].out
      IN /\ Report(Violated(c, o) \cup Harness(c), Drift(c, o))
         /\ cell' = c /\ out' = Respond(c)
   /\ done' = TRUE
   /\ l' = l + 1

TSpec == TInit /\ [][TCell]_tvars

Track == IF l > TLCGet(1) THEN TLCSet(1, l) ELSE TRUE
Accepted == TLCGet(1) = Len(Trace) + 1
=============================================================================
