\* Leg G (quick, C12)
SPECIFICATION GSpec
CONSTANTS
  Order = "code"
  D1Fixed = TRUE
  HopSafe = TRUE
  CLNormalised = TRUE
  BigBodies = FALSE
  Families = {"sig", "hop", "inj"}
INVARIANTS RulesHoldG
ACTION_CONSTRAINT Emit
CHECK_DEADLOCK FALSE
