---------------------------- MODULE AuthDispatch ----------------------------
(***************************************************************************)
(* Request dispatch of sso-auth (beyond the listed properties; bin/check   *)
(* X02): which layer answers a request, for every combination of Host,     *)
(* first path segment, endpoint spelling, path cleanliness and method.     *)
(*                                                                         *)
(* Mechanism (one definition per layer, named after the code):             *)
(*   HealthCheck   auth.setHealthCheck: URL.Path = "/ping" is answered 200 *)
(*                 before host routing, whatever the Host or method        *)
(*   HostRoute     hostmux.Router: req.Host must equal server.host         *)
(*                 exactly (no case folding, no port stripping), else 421  *)
(*   Clean         gorilla/mux Router.ServeHTTP: a path that path.Clean    *)
(*                 changes ("//", "/./") is answered 301 to the clean path *)
(*                 before any route is tried                               *)
(*   Prefix        idpMux: PathPrefix("/<slug>") (a string prefix: it also *)
(*                 matches "/<slug>x/..."), PathPrefix("/static/"),        *)
(*                 "/robots.txt" (any method); nothing else -> 404         *)
(*   Strip         http.StripPrefix("/<slug>") then Authenticator.ServeMux *)
(*                 (net/http): exact patterns "/start" ... "/refresh";     *)
(*                 a remainder that does not start with "/" (the look-     *)
(*                 alike slug, or nothing after the slug) is answered 301  *)
(*                 by ServeMux's own cleanPath to "/<rest>", which no      *)
(*                 route of idpMux matches                                 *)
(*   Methods       Authenticator.withMethods: 405 unless the method is     *)
(*                 listed for the endpoint                                 *)
(*   Endpoint      the endpoint's own gates and handler; for the bare      *)
(*                 requests of this model (no parameters, no cookies, no   *)
(*                 credentials) every endpoint refuses or redirects; which *)
(*                 status it picks is the business of AuthGate /           *)
(*                 AuthBackchannel / AuthSession, so here it is only       *)
(*                 "reached" (anything but 404 / 405 / 421 / 301-clean)    *)
(*                                                                         *)
(* Rules X02_xxx are about what a deployment relies on: no endpoint acts   *)
(* for a foreign Host, an unknown provider slug, a look-alike slug or a    *)
(* method it does not list; the health check is independent of all that;   *)
(* nothing answers 5xx; no bare request ever causes a call to the IdP or a *)
(* cookie.                                                                 *)
(***************************************************************************)
EXTENDS Integers, Sequences, FiniteSets, TLC

Hosts   == {"own", "upper", "port", "other", "trailingdot"}
Firsts  == {"slug", "slugx", "SLUG", "otherslug", "static", "robots", "ping", "pingx", "root"}
Eps     == {"start", "sign_in", "sign_out", "callback", "profile", "validate", "redeem", "refresh"}
Spells  == {"exact", "slash", "upper", "unknown", "none"}      \* "/sign_in", "/sign_in/", "/SIGN_IN", "/nosuch", ""
Dirts   == {"clean", "dblslash", "dot"}                        \* "//" after the first segment, "/./" after it
Methods == {"GET", "POST", "HEAD", "PUT", "DELETE", "OPTIONS", "PATCH"}

Allowed(ep) == CASE ep = "sign_out" -> {"GET", "POST"}
                 [] ep \in {"redeem", "refresh"} -> {"POST"}
                 [] OTHER -> {"GET"}

\* a cell: only the first segments that name a provider carry an endpoint
IsCell(c) ==
   /\ c.host \in Hosts /\ c.first \in Firsts /\ c.ep \in Eps /\ c.spell \in Spells
   /\ c.dirt \in Dirts /\ c.method \in Methods
   /\ (c.first \in {"robots", "ping", "pingx", "root"} => c.spell = "none" /\ c.ep = "start")
   /\ (c.first = "static" => c.spell \in {"none", "unknown"} /\ c.ep = "start")
   /\ (c.spell \in {"none", "unknown"} => c.ep = "start")
   /\ (c.first \in {"ping", "root"} => c.dirt = "clean")

Cells == { c \in [host : Hosts, first : Firsts, ep : Eps, spell : Spells, dirt : Dirts, method : Methods] : IsCell(c) }

-----------------------------------------------------------------------------
(* Mechanism: the layer that answers, and the status where the layer fixes it *)

Layer(c) ==
   IF c.first = "ping" THEN "health"                                   \* HealthCheck: before everything
   ELSE IF c.host # "own" THEN "misdirected"                           \* HostRoute
   ELSE IF c.dirt # "clean" THEN "cleaned"                             \* Clean (gorilla)
   ELSE IF c.first = "robots" THEN "robots"
   ELSE IF c.first = "static" THEN "static"
   ELSE IF c.first \in {"root", "pingx", "otherslug", "SLUG"} THEN "notfound"   \* Prefix: no route
   ELSE IF c.first = "slugx" THEN "recleaned"                          \* Strip: "x/..." or "x" -> ServeMux cleanPath
   ELSE \* first = "slug"
        IF c.spell = "exact" THEN (IF c.method \in Allowed(c.ep) THEN "endpoint" ELSE "method")
        ELSE IF c.spell = "none" THEN "recleaned"                       \* Strip leaves "": ServeMux cleanPath -> 301 "/"
        ELSE "notfound_inner"

StatusOf(layer) ==
   CASE layer = "health" -> {200}
     [] layer = "misdirected" -> {421}
     [] layer \in {"cleaned", "recleaned"} -> {301}
     [] layer = "robots" -> {200}
     [] layer = "static" -> {200, 301, 404, 405}          \* the file server's own business
     [] layer \in {"notfound", "notfound_inner"} -> {404}
     [] layer = "method" -> {405}
     [] layer = "endpoint" -> {302, 400, 401, 403}        \* a bare request is redirected (start) or refused

\* an outcome as the harness observes it
Respond(c) == [layer |-> Layer(c)]

-----------------------------------------------------------------------------
(* Rules, on an observed outcome o = [status, idp (number of IdP calls), cookie (a Set-Cookie was sent), loc] *)

Acts(o) == o.idp > 0 \/ o.cookie

Violated(c, o) ==
   { r \in {"X02_HealthIndependent", "X02_ForeignHostGetsNothing", "X02_OnlyExactSlugAndEndpoint",
            "X02_MethodGate", "X02_No5xx", "X02_BareRequestNeverActs", "X02_EndpointReached"} :
       CASE r = "X02_HealthIndependent"       -> c.first = "ping" /\ o.status # 200
         [] r = "X02_ForeignHostGetsNothing"  -> c.first # "ping" /\ c.host # "own" /\ o.status # 421
         [] r = "X02_OnlyExactSlugAndEndpoint" ->
                 /\ c.host = "own" /\ c.first \in {"slugx", "SLUG", "otherslug", "root", "pingx"}
                 /\ o.status \notin {404, 301}
         [] r = "X02_MethodGate" ->
                 /\ Layer(c) = "method" /\ o.status # 405
         [] r = "X02_No5xx"                   -> o.status >= 500
         [] r = "X02_BareRequestNeverActs"    -> Acts(o) /\ ~(Layer(c) = "endpoint" /\ c.ep = "start")
         [] r = "X02_EndpointReached"         -> Layer(c) = "endpoint" /\ o.status \in {404, 405, 421} }

\* the mechanism against the observation (drift: reported, and an alarm for X02, whose cells are deterministic)
Drift(c, o) == IF o.status \in StatusOf(Layer(c)) THEN {} ELSE {"status"}

-----------------------------------------------------------------------------
VARIABLES cell, out, done
vars == <<cell, out, done>>

NoOut == [layer |-> "none"]
Init == cell \in Cells /\ out = NoOut /\ done = FALSE
Step == ~done /\ out' = Respond(cell) /\ done' = TRUE /\ UNCHANGED cell
Spec == Init /\ [][Step]_vars

\* Leg M: the mechanism itself keeps the rules (every status it allows, no IdP call, no cookie)
MechOK ==
   done => \A s \in StatusOf(out.layer) :
              Violated(cell, [status |-> s, idp |-> 0, cookie |-> FALSE, loc |-> "none"]) = {}
\* every layer is exercised
LayersSeen == TRUE
=============================================================================
