------------------------- MODULE ProxySessionTrace -------------------------
(***************************************************************************)
(* Leg V for ProxySession: every step recorded from the real sso-proxy is  *)
(* judged by the property-level rules of ProxySession.tla.                 *)
(*                                                                         *)
(* Events (one JSON object per line, written by harness/ps):               *)
(*   cell    a forged cookie + one request (one-step, C01 quantifier)      *)
(*   reset   start of a real history: policy                               *)
(*   login   the real callback minted a session (cookie projected)         *)
(*   advance the browser's cookie was time-shifted by d units              *)
(*   request one request of the history with the cookie carried forward    *)
(* The state follows what the implementation actually did (the cookie it   *)
(* actually set); ghosts are recomputed from the answers the fake          *)
(* authenticator gave and the calls it received.                           *)
(***************************************************************************)
EXTENDS ProxySession, Json, IOUtils

Trace == ndJsonDeserialize(IOEnv.VERIF_TRACE)

VARIABLE l
tvars == <<ck, pol, gh, last, l>>

SeqToSet(s) == { s[i] : i \in DOMAIN s }
Obs(o) == [reached |-> o.reached, status |-> o.status, after |-> o.after, calls |-> SeqToSet(o.calls), res |-> "obs"]

\* fields on which the mechanism's prediction is compared as drift only
Drift(pred, o) ==
   { f \in {"reached", "status", "after", "calls"} :
       CASE f = "reached" -> pred.reached # o.reached
         [] f = "status" -> pred.status # o.status
         [] f = "after" -> pred.after # o.after
         [] f = "calls" -> pred.calls # o.calls }

Report(vs, dr) ==
   /\ IF vs = {} THEN TRUE ELSE PrintT(<<"VIOL", l, vs>>)
   /\ IF dr = {} THEN TRUE ELSE PrintT(<<"DRIFT", l, dr>>)

TInit == /\ ck = NoCookie /\ pol = [email |-> TRUE, group |-> FALSE] /\ gh = NoGhosts /\ last = NoStep /\ l = 1
         /\ TLCSet(1, 1)

Ev(e) == l <= Len(Trace) /\ Trace[l].ev = e

TCell ==
   /\ Ev("cell")
   /\ LET r == Trace[l]
          o == Obs(r.out)
          g == GhostsOfForged(r.c)
      IN /\ Report(Violated(g, r.c, r.pol, r.req, r.ans, o), Drift(Respond(r.c, r.pol, r.req, r.ans), o))
         /\ ck' = o.after /\ pol' = r.pol /\ gh' = StepGhosts(g, r.c, r.pol, r.req, r.ans, o)
         /\ last' = [ev |-> "cell"]
   /\ l' = l + 1

TReset ==
   /\ Ev("reset")
   /\ ck' = NoCookie /\ pol' = Trace[l].pol /\ gh' = NoGhosts /\ last' = [ev |-> "reset"]
   /\ l' = l + 1

\* login: what the real callback put into the cookie must start the clocks as the statement says
LoginViolated(r) ==
   { n \in {"C04_LoginLifetime", "C04_LoginValid", "C04_LoginRefresh", "C05_LoginNoGrace"} :
       CASE n = "C04_LoginLifetime" -> r.ck.life # LifeTTL
         [] n = "C04_LoginValid" -> r.ck.val > ValidTTL
         [] n = "C04_LoginRefresh" -> r.ck.ref > r.e
         [] n = "C05_LoginNoGrace" -> r.ck.grace # NoGrace }

TLogin ==
   /\ Ev("login")
   /\ LET r == Trace[l] IN
        /\ Report(LoginViolated(r), {})
        /\ ck' = r.ck /\ gh' = FreshGhosts /\ last' = [ev |-> "login"]
   /\ UNCHANGED pol
   /\ l' = l + 1

TAdvance ==
   /\ Ev("advance")
   /\ ck' = AdvanceCookie(ck, Trace[l].d) /\ gh' = AdvanceGhosts(gh, Trace[l].d) /\ last' = [ev |-> "advance"]
   /\ UNCHANGED pol
   /\ l' = l + 1

TRequest ==
   /\ Ev("request")
   /\ LET r == Trace[l]
          o == Obs(r.out)
      IN /\ Report(Violated(gh, ck, pol, r.req, r.ans, o) \cup (IF r.c # ck THEN {"HARNESS_CookieProjection"} ELSE {}),
                   Drift(Respond(ck, pol, r.req, r.ans), o))
         /\ ck' = o.after /\ gh' = StepGhosts(gh, ck, pol, r.req, r.ans, o)
         /\ last' = [ev |-> "request"]
   /\ UNCHANGED pol
   /\ l' = l + 1

TNext == TCell \/ TReset \/ TLogin \/ TAdvance \/ TRequest
TSpec == TInit /\ [][TNext]_tvars

Track == IF l > TLCGet(1) THEN TLCSet(1, l) ELSE TRUE
Accepted == TLCGet(1) = Len(Trace) + 1
=============================================================================
