\* Leg M, one-step from every cookie content a sealed cookie can carry (C01 quantifier)
SPECIFICATION Spec
CONSTANTS
  ValidTTL = 1
  GraceTTL = 2
  LifeTTL = 6
  Expiries = {1, 3}
  Forge = TRUE
INVARIANTS TypeOK
PROPERTIES StepOK
CHECK_DEADLOCK FALSE
VIEW View
