SPECIFICATION TSpec
CONSTANTS
  Users = {"u1", "u2"}
  Groups = {"g1", "g2"}
  Callers = {"t1", "t2"}
  MemberSets = {{}, {"u1"}, {"u2"}, {"u1", "u2"}}
  Coarse = FALSE
CONSTRAINT Track
POSTCONDITION Accepted
CHECK_DEADLOCK FALSE
