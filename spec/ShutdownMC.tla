----------------------------- MODULE ShutdownMC -----------------------------
EXTENDS Shutdown
MCReqs == {"a", "b", "c"}
MCKind == [r \in MCReqs |-> IF r = "c" THEN "long" ELSE "short"]
=============================================================================
