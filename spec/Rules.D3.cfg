\* as implemented: TLC must produce the D3 counterexample (login admits, a later phase refuses)
SPECIFICATION Spec
CONSTANTS
  PerRequestAllOf = TRUE
  RevalidationNeedsGroup = TRUE
  StarEntryIsSuffix = FALSE
INVARIANTS PhaseIndependent
CHECK_DEADLOCK FALSE
