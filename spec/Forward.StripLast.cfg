\* cookie stripped after signing: TLC is EXPECTED to report SignedIsReceived violated
SPECIFICATION Spec
CONSTANTS
  Order = "stripLast"
  D1Fixed = TRUE
  HopSafe = TRUE
  CLNormalised = TRUE
  BigBodies = FALSE
  Families = {"mini"}
INVARIANTS SignedIsReceived
CHECK_DEADLOCK FALSE
