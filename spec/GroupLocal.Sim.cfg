SPECIFICATION GenSpec
CONSTANTS
  Users = {"u1", "u2"}
  Groups = {"g1", "g2"}
  Callers = {"t1", "t2"}
  MemberVals = {{}, {"g1"}, {"g1", "g2"}}
  Coarse = TRUE
  Thin = 1
  SimLen = 30
  Questions <- Questions2
ACTION_CONSTRAINT EmitSim

CHECK_DEADLOCK FALSE
