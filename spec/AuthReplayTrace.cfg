SPECIFICATION Spec
CONSTRAINT Track
POSTCONDITION Accepted
CHECK_DEADLOCK FALSE
