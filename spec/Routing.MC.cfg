\* Leg M: on every cell the mechanism (per-upstream provider, as documented) satisfies every C13 rule
SPECIFICATION Spec
CONSTANTS
  ProviderFromDefault = FALSE
  TableIds = {1, 2, 3}
INVARIANTS RulesHold RouteIsMatch TablesOK
CHECK_DEADLOCK FALSE
