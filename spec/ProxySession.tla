---------------------------- MODULE ProxySession ----------------------------
(***************************************************************************)
(* One browser session at one sso-proxy upstream.                          *)
(*                                                                         *)
(* Mechanism: the Authenticate ladder of internal/proxy/oauthproxy.go      *)
(* (LoadSession, slug, host, lifetime, refresh | validate, per-request     *)
(* validators), SSOProvider.RefreshSession / ValidateSessionState with     *)
(* their grace branches (internal/proxy/providers/sso.go), Proxy /         *)
(* AuthenticateOnly / Favicon dispatch.                                    *)
(*                                                                         *)
(* Time is in units U; every deadline is held as REMAINING units           *)
(* (-1 = expired), so the model is finite and Leg M covers all histories.  *)
(*                                                                         *)
(* Properties (C01, C04, C05) are the operators R_* below.  They are       *)
(* written from the statements over (cookie before, ghosts before, policy, *)
(* request, authenticator answers, observed outcome) and are evaluated     *)
(*  - on every transition of this model (Leg M, action property StepOK)    *)
(*  - on every step observed from the real proxy (ProxySessionTrace.tla).  *)
(***************************************************************************)
EXTENDS Integers, Sequences, FiniteSets, TLC

CONSTANTS ValidTTL,   \* session valid TTL, units
          GraceTTL,   \* grace period TTL, units
          LifeTTL,    \* session lifetime TTL, units
          Expiries,   \* token expiries the authenticator may answer, units
          Forge       \* TRUE: Init admits every cookie (C01 one-step); FALSE: only real histories

NoGrace == -1
MaxRem == LifeTTL          \* remaining times are clipped to -1..MaxRem
Clip(n) == IF n < -1 THEN -1 ELSE n

Unavail == {"s429", "s503"}
RefreshA  == {"ok", "s401", "s403", "s200", "s429", "s503", "s500", "closed", "badjson", "na"}
ValidateA == {"ok", "s401", "s403", "s429", "s503", "s500", "closed", "na"}
ProfileA  == {"member", "nonmember", "s401", "s429", "s503", "s500", "closed", "badjson", "na"}

Policies == { [email |-> TRUE, group |-> FALSE],
              [email |-> FALSE, group |-> TRUE],
              [email |-> TRUE, group |-> TRUE] }

Kinds == {"none", "garbage", "otherkey", "sess"}
Emails == {"match", "nomatch", "empty"}

NoCookie == [kind |-> "none", slugOk |-> FALSE, hostOk |-> FALSE, life |-> -1, ref |-> -1, val |-> -1,
             grace |-> NoGrace, email |-> "empty", rt |-> FALSE, tok |-> "none", grp |-> "in"]
Bad(k) == [NoCookie EXCEPT !.kind = k]

\* grp: whether the groups recorded in the session (the user's allowed groups as of the last check) contain one
\* of the upstream's allowed groups; "in" by convention when the upstream has no group rule
Sess(sl, ho, li, re, va, gr, em, rt, tk, gp) ==
   [kind |-> "sess", slugOk |-> sl, hostOk |-> ho, life |-> li, ref |-> re, val |-> va,
    grace |-> gr, email |-> em, rt |-> rt, tok |-> tk, grp |-> gp]

\* cookie contents the one-step (forged) exploration starts from
RemVals(top) == {-1, 0, top}
ForgedCookies ==
   { Bad(k) : k \in {"none", "garbage", "otherkey"} } \cup
   { Sess(sl, ho, li, re, va, gr, em, rt, "old", gp) :
       sl \in BOOLEAN, ho \in BOOLEAN, li \in RemVals(LifeTTL), re \in RemVals(2), va \in RemVals(ValidTTL),
       gr \in {NoGrace, 0, GraceTTL, GraceTTL + 1}, em \in Emails, rt \in BOOLEAN, gp \in {"in", "out"} }

Requests ==
   { [kind |-> k, path |-> p, xhr |-> x] :
       k \in {"page"}, p \in {"skip", "near", "normal"}, x \in BOOLEAN } \cup
   { [kind |-> k, path |-> "normal", xhr |-> x] : k \in {"authonly", "favicon"}, x \in BOOLEAN }

Answers == [refresh : RefreshA, rexp : Expiries, validate : ValidateA, profile : ProfileA]

-----------------------------------------------------------------------------
(* Mechanism *)

Due(c) == IF c.ref < 0 THEN "refresh" ELSE IF c.val < 0 THEN "validate" ELSE "none"

\* SSOProvider.ValidateGroup: no call when no groups are configured
GroupStep(pol, a) ==
   IF ~pol.group THEN "ok"
   ELSE CASE a.profile = "member" -> "ok"
          [] a.profile = "nonmember" -> "nonmember"
          [] a.profile \in Unavail -> "unavail"
          [] OTHER -> "err"

\* SessionState.IsWithinGracePeriod: stamps the start on first use
WithinGrace(c) == c.grace = NoGrace \/ c.grace <= GraceTTL
GraceAfter(c) == IF c.grace = NoGrace THEN 0 ELSE c.grace

R(res, c, saved, calls) == [res |-> res, ck |-> c, saved |-> saved, calls |-> calls]

\* oauthproxy.go:720-733 - every non-group validator must pass
PerRequest(pol, c, saved, calls) ==
   IF pol.email /\ c.email # "match" THEN R("notauth", c, saved, calls) ELSE R("ok", c, saved, calls)

RefreshBranch(c, pol, a) ==
   IF ~c.rt THEN R("err", c, FALSE, {})
   ELSE CASE a.refresh = "ok" ->
               LET g == GroupStep(pol, a)
                   calls == IF pol.group THEN {"refresh", "profile"} ELSE {"refresh"}
               IN CASE g = "ok" -> PerRequest(pol, [c EXCEPT !.ref = a.rexp, !.grace = NoGrace, !.tok = "new", !.grp = "in"], TRUE, calls)
                    [] g = "unavail" ->
                         IF WithinGrace(c)
                         THEN PerRequest(pol, [c EXCEPT !.ref = ValidTTL, !.grace = GraceAfter(c)], TRUE, calls)
                         ELSE R("err", c, FALSE, calls)
                    [] OTHER -> R("err", c, FALSE, calls)
          [] a.refresh \in Unavail ->
               IF WithinGrace(c)
               THEN PerRequest(pol, [c EXCEPT !.ref = ValidTTL, !.grace = GraceAfter(c)], TRUE, {"refresh"})
               ELSE R("err", c, FALSE, {"refresh"})
          [] a.refresh = "s401" -> R("revoked", c, FALSE, {"refresh"})
          [] OTHER -> R("err", c, FALSE, {"refresh"})

ValidateBranch(c, pol, a) ==
   CASE a.validate = "ok" ->
          LET g == GroupStep(pol, a)
              calls == IF pol.group THEN {"validate", "profile"} ELSE {"validate"}
          IN CASE g = "ok" -> PerRequest(pol, [c EXCEPT !.val = ValidTTL, !.grace = NoGrace, !.grp = "in"], TRUE, calls)
               [] g = "unavail" ->
                    IF WithinGrace(c)
                    THEN PerRequest(pol, [c EXCEPT !.val = ValidTTL, !.grace = GraceAfter(c)], TRUE, calls)
                    ELSE R("notauth", c, FALSE, calls)
               [] OTHER -> R("notauth", c, FALSE, calls)
     [] a.validate \in Unavail ->
          IF WithinGrace(c)
          THEN PerRequest(pol, [c EXCEPT !.val = ValidTTL, !.grace = GraceAfter(c)], TRUE, {"validate"})
          ELSE R("notauth", c, FALSE, {"validate"})
     [] OTHER -> R("notauth", c, FALSE, {"validate"})

\* OAuthProxy.Authenticate
Auth(c, pol, a) ==
   IF c.kind = "none" THEN R("nocookie", c, FALSE, {})
   ELSE IF c.kind # "sess" THEN R("invalid", c, FALSE, {})
   ELSE IF ~c.slugOk THEN R("wrongidp", c, FALSE, {})
   ELSE IF ~c.hostOk THEN R("wrongup", c, FALSE, {})
   ELSE IF c.life < 0 THEN R("lifetime", c, FALSE, {})
   ELSE IF c.ref < 0 THEN RefreshBranch(c, pol, a)
   ELSE IF c.val < 0 THEN ValidateBranch(c, pol, a)
   ELSE PerRequest(pol, c, FALSE, {})

Restart == {"nocookie", "invalid", "wrongidp", "wrongup", "lifetime"}

\* status the browser sees for a failed authentication on the Proxy path
ErrStatus(res, xhr) ==
   CASE res \in Restart -> IF xhr THEN 401 ELSE 302
     [] res = "notauth" -> 403
     [] res = "revoked" -> 401
     [] OTHER -> 500

Out(reached, status, after, calls, res) ==
   [reached |-> reached, status |-> status, after |-> after, calls |-> calls, res |-> res]

\* what the browser holds after a failed Authenticate: the deferred ClearSession wins
\* Proxy / AuthenticateOnly / Favicon
Respond(c, pol, req, a) ==
   IF req.kind = "page" /\ req.path = "skip"
   THEN Out(TRUE, 200, c, {}, "skip")
   ELSE LET r == Auth(c, pol, a) IN
        IF r.res = "ok"
        THEN Out(req.kind # "authonly", IF req.kind = "authonly" THEN 202 ELSE 200, r.ck, r.calls, "ok")
        ELSE Out(FALSE,
                 CASE req.kind = "authonly" -> 401
                   [] req.kind = "favicon" -> 404
                   [] OTHER -> ErrStatus(r.res, req.xhr),
                 NoCookie, r.calls, r.res)

\* answers are chosen only for the endpoints a step consults; the others are "na"
MinExp == CHOOSE e \in Expiries : \A f \in Expiries : e <= f
NA == [refresh |-> "na", rexp |-> MinExp, validate |-> "na", profile |-> "na"]
ReachesCheck(c, req) ==
   /\ ~(req.kind = "page" /\ req.path = "skip")
   /\ c.kind = "sess" /\ c.slugOk /\ c.hostOk /\ c.life >= 0
AnswersFor(c, pol, req) ==
   IF ~ReachesCheck(c, req) THEN {NA}
   ELSE IF Due(c) = "refresh" /\ c.rt THEN
        { [NA EXCEPT !.refresh = r] : r \in RefreshA \ {"ok", "na"} } \cup
        { [NA EXCEPT !.refresh = "ok", !.rexp = e, !.profile = p] :
             e \in Expiries, p \in (IF pol.group THEN ProfileA \ {"na"} ELSE {"na"}) }
   ELSE IF Due(c) = "validate" THEN
        { [NA EXCEPT !.validate = v] : v \in ValidateA \ {"ok", "na"} } \cup
        { [NA EXCEPT !.validate = "ok", !.profile = p] :
             p \in (IF pol.group THEN ProfileA \ {"na"} ELSE {"na"}) }
   ELSE {NA}

-----------------------------------------------------------------------------
(* Property-level rules.  c: cookie before; gh: ghosts before; o: outcome.   *)
(* o = [reached, status, after, calls, ...]; o.after is the cookie the       *)
(* browser holds after applying the response's Set-Cookie headers in order.  *)

NonSkip(req) == ~(req.kind = "page" /\ req.path = "skip")

Primary(c, a) == IF Due(c) = "refresh" THEN a.refresh ELSE IF Due(c) = "validate" THEN a.validate ELSE "na"
PrimaryCalled(c, o) == Due(c) \in o.calls

\* the check that was due was answered positively by the authenticator
Confirmed(c, pol, a, o) ==
   /\ Due(c) # "none" /\ PrimaryCalled(c, o) /\ Primary(c, a) = "ok"
   /\ pol.group => ("profile" \in o.calls /\ a.profile = "member")

\* the first failing answer of the due check is 429 / 503
EffUnavail(c, pol, a) ==
   /\ Due(c) # "none"
   /\ \/ Primary(c, a) \in Unavail
      \/ Primary(c, a) = "ok" /\ pol.group /\ a.profile \in Unavail

\* the due check was answered with an explicit denial
Denied(c, pol, a) ==
   /\ Due(c) # "none"
   /\ \/ Primary(c, a) = "s401"
      \/ Primary(c, a) = "ok" /\ pol.group /\ a.profile = "nonmember"

\* any other failure class
OtherFailure(c, pol, a) ==
   /\ Due(c) # "none"
   /\ ~EffUnavail(c, pol, a) /\ ~Denied(c, pol, a)
   /\ \/ Primary(c, a) # "ok"
      \/ pol.group /\ a.profile # "member"

\* everything about the session other than the due check is in order
Sound(c, pol) ==
   /\ c.kind = "sess" /\ c.slugOk /\ c.hostOk /\ c.life >= 0
   /\ pol.email => c.email = "match"
   /\ Due(c) = "refresh" => c.rt

\* C01: statement-level authorisation of a non-skip request
Authorized(c, pol, a, o) ==
   /\ c.kind = "sess" /\ c.slugOk /\ c.hostOk /\ c.life >= 0
   /\ Due(c) # "none" =>
         /\ PrimaryCalled(c, o)
         /\ Primary(c, a) \in {"ok"} \cup Unavail
         /\ (pol.group /\ Primary(c, a) = "ok") => ("profile" \in o.calls /\ a.profile \in {"member"} \cup Unavail)
   \* "whose user satisfies at least one of the upstream's allow rules": an e-mail rule matches, or the groups
   \* recorded at the last check (or confirmed by the check made now) contain an allowed group.  On an upstream
   \* with group rules ONLY the recorded groups are not demanded: membership is established at checks (C04
   \* bounds their age), and no history of the real proxy produces such a session without them.
   /\ \/ pol.email /\ c.email = "match"
      \/ pol.group /\ c.grp = "in"
      \/ pol.group /\ Due(c) # "none" /\ Primary(c, a) = "ok" /\ "profile" \in o.calls /\ a.profile = "member"
      \/ pol.group /\ ~pol.email

R_C01_Mediation(c, pol, req, a, o) == (o.reached /\ NonSkip(req)) => Authorized(c, pol, a, o)
R_C01_AuthOnly202(c, pol, req, a, o) == (req.kind = "authonly" /\ o.status = 202) => Authorized(c, pol, a, o)
R_C01_AuthOnlyNeverProxies(c, pol, req, a, o) == req.kind = "authonly" => ~o.reached
\* "has passed any refresh/revalidation that was due": the one exception the system makes (an authenticator that is
\* unavailable, C05) is bounded, so a request let through on it after the bound has elapsed - measured from the first
\* unavailable answer of the episode, a fact of the history (ghost), not from whatever the cookie claims - reached the
\* upstream on a check that was due and never passed.  (One direction of C05_GraceBound, under C01's name.)
R_C01_GraceIsNoBypass(gh, c, pol, req, a, o) ==
   (o.reached /\ NonSkip(req) /\ req.kind = "page" /\ Sound(c, pol) /\ EffUnavail(c, pol, a)) =>
      (IF gh.firstFail # NoGrace THEN gh.firstFail ELSE 0) <= GraceTTL

\* C04
R_C04_LifeNeverMoves(c, pol, req, a, o) == (c.kind = "sess" /\ o.after.kind = "sess") => o.after.life = c.life
R_C04_LifetimeBound(gh, req, o) == (o.reached /\ NonSkip(req) /\ gh.sinceLogin >= 0) => gh.sinceLogin <= LifeTTL
R_C04_RecheckDue(c, pol, req, a, o) ==
   (o.reached /\ NonSkip(req) /\ Due(c) # "none") => (Confirmed(c, pol, a, o) \/ EffUnavail(c, pol, a))
R_C04_GhostRecheck(gh, c, pol, req, a, o) ==
   (o.reached /\ NonSkip(req) /\ gh.sinceOK > ValidTTL) => (Confirmed(c, pol, a, o) \/ gh.firstFail # NoGrace \/ EffUnavail(c, pol, a))
\* the cookie handed back never schedules the next check later than the statement allows
R_C04_NextCheckBound(c, pol, req, a, o) ==
   (c.kind = "sess" /\ o.after.kind = "sess") =>
      \* (a confirmed REFRESH is a successful check of token and groups too: the validity window may restart at it)
      /\ o.after.val <= (IF (Due(c) = "validate" /\ (Confirmed(c, pol, a, o) \/ EffUnavail(c, pol, a)))
                             \/ (Due(c) = "refresh" /\ Confirmed(c, pol, a, o))
                          THEN ValidTTL ELSE c.val)
      /\ o.after.ref <= (IF Due(c) = "refresh" THEN (IF Confirmed(c, pol, a, o) THEN a.rexp
                                                     ELSE IF EffUnavail(c, pol, a) THEN ValidTTL ELSE c.ref)
                         ELSE c.ref)
R_C04_RevocationEffective(c, pol, req, a, o) ==
   (NonSkip(req) /\ Sound(c, pol) /\ Denied(c, pol, a)) => (~o.reached /\ o.after.kind = "none")
\* a session that is in order and needs no check, or whose check is confirmed, keeps working
R_C04_KeepsWorking(c, pol, req, a, o) ==
   (req.kind = "page" /\ NonSkip(req) /\ Sound(c, pol) /\ (Due(c) = "none" \/ (Primary(c, a) = "ok" /\ GroupStep(pol, a) = "ok")))
      => (o.reached /\ o.after.kind = "sess")

\* C05.  The rules below describe an implementation that makes one check per request (the due one).  A request in
\* which the other check was made as well is not judged by them (its outcome depends on two answers in an order the
\* statement does not fix); the ghosts still follow it, so the bound is enforced at the surrounding steps.
SingleCheck(c, o) == Due(c) = "none" \/ (IF Due(c) = "refresh" THEN "validate" ELSE "refresh") \notin o.calls
GraceElapsed(gh, c) == IF gh.firstFail # NoGrace THEN gh.firstFail ELSE 0
R_C05_GraceBound(gh, c, pol, req, a, o) ==
   (NonSkip(req) /\ req.kind = "page" /\ Sound(c, pol) /\ EffUnavail(c, pol, a) /\ SingleCheck(c, o)) =>
      /\ o.reached <=> GraceElapsed(gh, c) <= GraceTTL
      /\ ~o.reached => o.after.kind = "none"
R_C05_NoGraceOther(c, pol, req, a, o) ==
   (NonSkip(req) /\ Sound(c, pol) /\ OtherFailure(c, pol, a)) => (~o.reached /\ o.after.kind = "none")
R_C05_GraceStartMatches(gh, c, pol, req, a, o) ==
   (NonSkip(req) /\ Sound(c, pol) /\ EffUnavail(c, pol, a) /\ o.after.kind = "sess" /\ SingleCheck(c, o)) => o.after.grace = GraceElapsed(gh, c)
R_C05_SuccessEndsEpisode(c, pol, req, a, o) ==
   (NonSkip(req) /\ Confirmed(c, pol, a, o) /\ o.after.kind = "sess" /\ SingleCheck(c, o)) => o.after.grace = NoGrace
\* a tolerated 429 / 503 defers the due check by one validity period at most: the bound "only until the grace TTL
\* has elapsed" is enforced AT the next check, so whatever the authenticator adds to its answer (a Retry-After,
\* a body) must not push that check further away
R_C05_GraceDefersOnePeriod(c, pol, req, a, o) ==
   (NonSkip(req) /\ Sound(c, pol) /\ EffUnavail(c, pol, a) /\ o.after.kind = "sess" /\ SingleCheck(c, o)) =>
      /\ Due(c) = "validate" => o.after.val <= ValidTTL
      /\ Due(c) = "refresh" => o.after.ref <= ValidTTL
R_C05_NoStampWithoutOutage(c, pol, req, a, o) ==
   (c.kind = "sess" /\ o.after.kind = "sess" /\ ~EffUnavail(c, pol, a) /\ SingleCheck(c, o)) => o.after.grace \in {NoGrace, c.grace}

Rules(gh, c, pol, req, a, o) ==
   [ C01_Mediation            |-> R_C01_Mediation(c, pol, req, a, o),
     C01_AuthOnly202          |-> R_C01_AuthOnly202(c, pol, req, a, o),
     C01_AuthOnlyNeverProxies |-> R_C01_AuthOnlyNeverProxies(c, pol, req, a, o),
     C01_GraceIsNoBypass      |-> R_C01_GraceIsNoBypass(gh, c, pol, req, a, o),
     C04_LifeNeverMoves       |-> R_C04_LifeNeverMoves(c, pol, req, a, o),
     C04_LifetimeBound        |-> R_C04_LifetimeBound(gh, req, o),
     C04_RecheckDue           |-> R_C04_RecheckDue(c, pol, req, a, o),
     C04_GhostRecheck         |-> R_C04_GhostRecheck(gh, c, pol, req, a, o),
     C04_NextCheckBound       |-> R_C04_NextCheckBound(c, pol, req, a, o),
     C04_RevocationEffective  |-> R_C04_RevocationEffective(c, pol, req, a, o),
     C04_KeepsWorking         |-> R_C04_KeepsWorking(c, pol, req, a, o),
     C05_GraceBound           |-> R_C05_GraceBound(gh, c, pol, req, a, o),
     C05_NoGraceOther         |-> R_C05_NoGraceOther(c, pol, req, a, o),
     C05_GraceStartMatches    |-> R_C05_GraceStartMatches(gh, c, pol, req, a, o),
     C05_SuccessEndsEpisode   |-> R_C05_SuccessEndsEpisode(c, pol, req, a, o),
     C05_GraceDefersOnePeriod |-> R_C05_GraceDefersOnePeriod(c, pol, req, a, o),
     C05_NoStampWithoutOutage |-> R_C05_NoStampWithoutOutage(c, pol, req, a, o) ]

Violated(gh, c, pol, req, a, o) ==
   LET rs == Rules(gh, c, pol, req, a, o) IN { n \in DOMAIN rs : ~rs[n] }

-----------------------------------------------------------------------------
(* Ghosts: facts about the history that the cookie does not (have to) carry *)

Unknown == -1
GhostsOfForged(c) ==   \* a forged cookie is read as if a consistent history had produced it
   [sinceLogin |-> IF c.kind = "sess" THEN (IF c.life >= 0 THEN LifeTTL - c.life ELSE LifeTTL + 1) ELSE Unknown,
    sinceOK    |-> Unknown,
    firstFail  |-> IF c.kind = "sess" THEN c.grace ELSE NoGrace]
FreshGhosts == [sinceLogin |-> 0, sinceOK |-> 0, firstFail |-> NoGrace]
NoGhosts == [sinceLogin |-> Unknown, sinceOK |-> Unknown, firstFail |-> NoGrace]

Cap(n, top) == IF n > top THEN top ELSE n
AdvanceGhosts(gh, d) ==
   [sinceLogin |-> IF gh.sinceLogin = Unknown THEN Unknown ELSE Cap(gh.sinceLogin + d, LifeTTL + 1),
    sinceOK    |-> IF gh.sinceOK = Unknown THEN Unknown ELSE Cap(gh.sinceOK + d, LifeTTL + 1),
    firstFail  |-> IF gh.firstFail = NoGrace THEN NoGrace ELSE Cap(gh.firstFail + d, GraceTTL + 1)]
AdvanceCookie(c, d) ==
   IF c.kind # "sess" THEN c
   ELSE [c EXCEPT !.life = Clip(@ - d), !.ref = Clip(@ - d), !.val = Clip(@ - d),
                  !.grace = IF @ = NoGrace THEN NoGrace ELSE Cap(@ + d, GraceTTL + 1)]

\* ghosts after a request, from what the authenticator answered and what was asked
\* The code makes ONE check per request (the due one, Primary).  An implementation that also makes the other one in the
\* same request and gets a positive answer (with the group step, where the policy has one) has been told by the
\* authenticator that the session is good: that ends the outage episode just as a confirmed primary check does
\* (found by a property-preserving change that performs every due check before letting the request through).
SecondaryConfirmed(c, pol, a, o) ==
   LET s == IF Due(c) = "refresh" THEN "validate" ELSE "refresh" IN
   /\ Due(c) # "none" /\ s \in o.calls
   /\ (IF s = "validate" THEN a.validate ELSE a.refresh) = "ok"
   /\ pol.group => ("profile" \in o.calls /\ a.profile = "member")

StepGhosts(gh, c, pol, req, a, o) ==
   IF ~NonSkip(req) \/ o.after.kind # "sess" THEN (IF o.after.kind = "sess" \/ ~NonSkip(req) THEN gh ELSE NoGhosts)
   ELSE [sinceLogin |-> gh.sinceLogin,
         sinceOK    |-> IF Confirmed(c, pol, a, o) THEN 0 ELSE gh.sinceOK,
         firstFail  |-> IF Confirmed(c, pol, a, o) \/ SecondaryConfirmed(c, pol, a, o) THEN NoGrace
                        ELSE IF EffUnavail(c, pol, a) /\ PrimaryCalled(c, o) /\ gh.firstFail = NoGrace THEN 0
                        ELSE gh.firstFail]

-----------------------------------------------------------------------------
(* The model *)

VARIABLES ck,     \* cookie the browser holds
          pol,    \* the upstream's policy
          gh,     \* ghosts
          last    \* last step: [ev, req, ans, out] (observation only)
vars == <<ck, pol, gh, last>>

NoStep == [ev |-> "init"]

Init ==
   /\ pol \in Policies
   /\ last = NoStep
   /\ IF Forge
      THEN ck \in ForgedCookies /\ (pol.group \/ ck.grp = "in") /\ gh = GhostsOfForged(ck)
      ELSE ck = NoCookie /\ gh = NoGhosts

\* OAuthCallback after a successful redeem (ProxyLogin.tla covers its gates)
Login(e, em) ==
   /\ ~Forge
   /\ ck' = Sess(TRUE, TRUE, LifeTTL, e, ValidTTL, NoGrace, em, TRUE, "old", "in")
   /\ gh' = FreshGhosts
   /\ last' = [ev |-> "login", e |-> e, email |-> em]
   /\ UNCHANGED pol

Advance(d) ==
   /\ ~Forge
   /\ ck.kind = "sess"
   /\ ck' = AdvanceCookie(ck, d)
   /\ gh' = AdvanceGhosts(gh, d)
   /\ last' = [ev |-> "advance", d |-> d]
   /\ UNCHANGED pol

Request(req, a) ==
   /\ Forge => last.ev = "init"
   /\ LET o == Respond(ck, pol, req, a) IN
        /\ ck' = o.after
        /\ gh' = StepGhosts(gh, ck, pol, req, a, o)
        /\ last' = [ev |-> "request", req |-> req, ans |-> a, out |-> o]
   /\ UNCHANGED pol

Next ==
   \/ \E e \in Expiries, em \in {"match", "nomatch"} : Login(e, em)
   \/ \E d \in 1..3 : Advance(d)
   \/ \E req \in Requests : \E a \in AnswersFor(ck, pol, req) : Request(req, a)

Spec == Init /\ [][Next]_vars

-----------------------------------------------------------------------------
(* Checked by TLC *)

\* every transition of the mechanism satisfies every property-level rule
\* (unprimed ck, gh = before the step; last' = the step and its outcome)
StepRulesHold ==
   last'.ev = "request" => Violated(gh, ck, pol, last'.req, last'.ans, last'.out) = {}
StepOK == [][StepRulesHold]_vars
View == <<ck, pol, gh>>

TypeOK ==
   /\ ck.kind \in Kinds
   /\ ck.kind = "sess" => /\ ck.life \in -1..MaxRem /\ ck.ref \in -1..MaxRem /\ ck.val \in -1..MaxRem
                          /\ ck.grace \in -1..(GraceTTL + 1)

\* invariants over real histories (Forge = FALSE)
LifeMatchesGhost ==
   (~Forge /\ ck.kind = "sess") => ck.life = Clip(LifeTTL - gh.sinceLogin)
ValidNeverLong == (~Forge /\ ck.kind = "sess") => ck.val <= ValidTTL
GraceMatchesGhost == (~Forge /\ ck.kind = "sess") => ck.grace = gh.firstFail
\* outside an outage the last positive answer is never older than ValidTTL plus what the cookie still has
FreshOrOutage ==
   (~Forge /\ ck.kind = "sess" /\ gh.firstFail = NoGrace /\ ck.val >= 0 /\ ck.ref >= 0) => gh.sinceOK <= ValidTTL \/ gh.sinceOK <= LifeTTL

=============================================================================
