-------------------------- MODULE AuthReplayTrace --------------------------
(* C07, "... only for a redirect URI that was additionally signed with the   *)
(* proxy's client secret together with a timestamp no older than five        *)
(* minutes", over HISTORIES: the very same signed request is sent while its  *)
(* timestamp is just inside the five minutes (it must be acted on - that is  *)
(* the probe's own sanity) and again, seconds later, just outside.  Having   *)
(* accepted a signature once is no reason to accept it when it is stale.     *)
EXTENDS Integers, Sequences, TLC, Json, IOUtils
Trace == ndJsonDeserialize(IOEnv.VERIF_TRACE)
VARIABLE l
Init == l = 1 /\ TLCSet(1, 1)
\* walk: /callback is handed a `state` naming a sign-in URL whose nested redirect is signed as r.nested says; the
\* browser then follows its redirects.  A code may be attached only when that nested redirect was signed by the
\* proxy and is fresh - whatever the authenticator itself did to the URL on the way.
WalkViol(r) ==
   (IF r.acted /\ r.nested # "valid" THEN {"C07_GatedAction"} ELSE {})
   \cup (IF ~r.acted /\ r.nested = "valid" THEN {"HARNESS_HonestWalkRefused"} ELSE {})
\* sigreuse: a genuine signed request is accepted (acted1), then its sig and ts come back with ANOTHER in-domain
\* redirect, which the proxy never signed: it must not be acted on, whatever was accepted before
ReuseViol(r) ==
   (IF r.acted THEN {"C07_GatedAction"} ELSE {})
   \cup (IF ~r.acted1 THEN {"HARNESS_FreshRequestNotActedOn"} ELSE {})
Viol(r) == IF r.ev = "walk" THEN WalkViol(r) ELSE IF r.ev = "sigreuse" THEN ReuseViol(r) ELSE
   (IF r.acted2 /\ r.age2 > 300 THEN {"C07_GatedAction"} ELSE {})
   \cup (IF ~r.acted1 /\ r.age1 <= 299 THEN {"HARNESS_FreshRequestNotActedOn"} ELSE {})
Step == /\ l <= Len(Trace)
        /\ \A v \in Viol(Trace[l]) : PrintT(<<"VIOL", l, {v}>>)
        /\ l' = l + 1
Spec == Init /\ [][Step]_l
Track == IF l > TLCGet(1) THEN TLCSet(1, l) ELSE TRUE
Accepted == TLCGet(1) = Len(Trace) + 1
=============================================================================
