\* the decoder as shipped (defect D8): TLC must produce the counterexample (a re-encoded string opens)
SPECIFICATION Spec
CONSTANTS
  LenientBase64 = TRUE
INVARIANTS AxOpenIffGenuine
CHECK_DEADLOCK FALSE
