------------------------------ MODULE SSOLife ------------------------------
(***************************************************************************)
(* The life of one browser session across the WHOLE chain                   *)
(*                                                                         *)
(*    browser -> sso-proxy -> sso-auth (back-channel) -> identity provider *)
(*                                                                         *)
(* ProxySession.tla treats the authenticator's answers as free inputs;     *)
(* AuthSession / AuthBackchannel.tla treat the identity provider's answers *)
(* as free inputs.  This module closes the loop: the only free inputs are  *)
(* what happens AT THE IDENTITY PROVIDER (the token family is revoked, the  *)
(* user leaves the group, the IdP rate-limits / fails / is unreachable),    *)
(* the passing of time, and the expiry of the authenticator's group cache.  *)
(* The authenticator's answers are derived (operators ChainXxx), and the     *)
(* proxy's ladder (ProxySession!Respond) runs on them.                      *)
(*                                                                         *)
(* Mechanism modelled here (the rest is ProxySession's):                    *)
(*   internal/auth/authenticator.go  Refresh / ValidateToken / GetProfile   *)
(*   internal/auth/error.go          codeForError                          *)
(*   internal/auth/providers/okta.go oktaRequest's status mapping,         *)
(*                                   RefreshAccessToken, ValidateSessionState,*)
(*                                   ValidateGroupMembership                *)
(*   internal/auth/providers/group_cache.go  answers cached per             *)
(*                                   (e-mail, allowed groups), errors not   *)
(*                                                                         *)
(* What a user relies on end to end (rules E_* below): revoking the tokens  *)
(* or removing the user from the group AT THE IDP stops the upstream being  *)
(* reached within one validity period (plus the bounded outage grace, plus  *)
(* the group cache's TTL for memberships); a session that the IdP still     *)
(* vouches for keeps working; nothing moves the lifetime bound.             *)
(***************************************************************************)
EXTENDS ProxySession

CONSTANTS TokTTL,     \* expires_in the IdP grants, in units (an element of Expiries)
          LenientValidate  \* FALSE = the code; TRUE = a deliberately wrong variant in which /validate treats IdP trouble
                           \* as "still valid" (vacuity guard: TLC must then refute E_RevocationReaches)

Avails  == {"up", "e429", "e503", "down"}
Members == {"yes", "no", "nogroups"}       \* the user's groups at the IdP: contain the allowed one / do not / are empty
Caches  == {"empty", "member", "nonmember"} \* the authenticator's GroupCache entry for (this e-mail, this upstream's groups)

-----------------------------------------------------------------------------
(* The authenticator's back-channel over the Okta provider                   *)

\* POST /refresh -> RefreshAccessToken -> IdP token endpoint (grant_type=refresh_token)
\*   IdP 200 -> 201 with the new token; 400 "...token is invalid or expired" -> ErrTokenRevoked -> 401;
\*   429 -> 429; any other status -> ErrServiceUnavailable -> 503; transport error -> 500
ChainRefresh(i) ==
   CASE i.avail = "e429" -> "s429"
     [] i.avail = "e503" -> "s503"
     [] i.avail = "down" -> "s500"
     [] i.fam = "revoked" -> "s401"
     [] OTHER -> "ok"

\* GET /validate -> ValidateSessionState -> IdP introspect: ANY failure (inactive, 429, 5xx, transport) is `false` -> 401
ChainValidate(i) ==
   IF i.avail = "up" /\ i.fam = "live" THEN "ok"
   ELSE IF LenientValidate /\ i.avail # "up" THEN "ok"
   ELSE "s401"

\* GET /profile -> GroupCache -> (miss) ValidateGroupMembership -> IdP userinfo
\*   hit: the cached list, whatever the IdP would say now
\*   userinfo groups empty -> error -> 500; groups without the allowed one -> 200 with an empty list
ChainProfile(i, gc) ==
   IF gc # "empty" THEN gc
   ELSE CASE i.avail = "e429" -> "s429"
          [] i.avail = "e503" -> "s503"
          [] i.avail = "down" -> "s500"
          [] i.member = "yes" -> "member"
          [] i.member = "no" -> "nonmember"
          [] OTHER -> "s500"

\* the answers one request can draw on (ProxySession consults only the ones its ladder reaches)
ChainAns(i, gc) == [refresh |-> ChainRefresh(i), rexp |-> TokTTL, validate |-> ChainValidate(i), profile |-> ChainProfile(i, gc)]

\* GroupCache.ValidateGroupMembership stores every answer that is not an error
CacheAfter(i, gc, calls) ==
   IF "profile" \in calls /\ gc = "empty" /\ ChainProfile(i, gc) \in {"member", "nonmember"} THEN ChainProfile(i, gc) ELSE gc

-----------------------------------------------------------------------------
(* Ghosts of the chain: how long the IdP has been saying no                  *)

NoTime == -1
Tick(n, d) == IF n = NoTime THEN NoTime ELSE Cap(n + d, LifeTTL + 2)

\* the statement-level fact "the IdP no longer vouches for this session", and for how long
\*   sinceRevoke : units since the token family was revoked (NoTime = it is live)
\*   sinceOut    : units since (the user is not in the group at the IdP) AND (the authenticator's cache does not
\*                 hold a positive answer) - before that the cache TTL is the documented delay
LifeGhosts == [sinceRevoke : -1..(LifeTTL + 2), sinceOut : -1..(LifeTTL + 2)]

\* (only where the group rule is the user's only way in: with an e-mail rule that admits her she stays authorised)
OutNow(i, gc, p) == p.group /\ ~p.email /\ i.member # "yes" /\ gc # "member"

-----------------------------------------------------------------------------
(* End-to-end rules (evaluated on every request step: model and real chain)  *)
(*   c, g, lg, i, gc : cookie, proxy ghosts, chain ghosts, IdP, cache BEFORE *)
(*   o : the outcome                                                       *)

InOutage(g, c, p, i, gc) == g.firstFail # NoGrace \/ EffUnavail(c, p, ChainAns(i, gc))

\* a revoked family stops reaching the upstream within one validity period, except inside an outage episode
\* (whose own length C05 bounds: a sparse browser may meet its first due check during an outage)
E_RevocationReaches(c, g, lg, p, i, gc, req, o) ==
   (o.reached /\ NonSkip(req) /\ lg.sinceRevoke > ValidTTL) => InOutage(g, c, p, i, gc)

\* the same for group membership, counted from the moment the cache no longer covers for the IdP
E_RemovalReaches(c, g, lg, p, i, gc, req, o) ==
   (o.reached /\ NonSkip(req) /\ lg.sinceOut > ValidTTL) => InOutage(g, c, p, i, gc)

\* a due check against a healthy IdP that has revoked / removed refuses at once and ends the session
E_DeniedAtOnce(c, g, lg, p, i, gc, req, o) ==
   (NonSkip(req) /\ Sound(c, p) /\ Due(c) # "none" /\ i.avail = "up" /\ (i.fam = "revoked" \/ (OutNow(i, gc, p) /\ i.member = "no")))
      => (~o.reached /\ o.after.kind = "none")

\* a session the IdP vouches for keeps working, whatever happened before
E_KeepsWorking(c, g, lg, p, i, gc, req, o) ==
   (req.kind = "page" /\ NonSkip(req) /\ Sound(c, p) /\ i.avail = "up" /\ i.fam = "live" /\ (p.group => (gc = "member" \/ (gc = "empty" /\ i.member = "yes"))))    \* the cache's answer counts until it expires, either way
      => (o.reached /\ o.after.kind = "sess")
\* (a user admitted by an e-mail rule to an upstream that ALSO has group rules, and who is in none of the groups,
\*  is refused at her first revalidation by the code: that is known finding D3 of C11; this rule does not speak of her)

\* IdP trouble alone never ends a session whose checks are not due
\* (whether the authenticator is called although nothing is due is not the statement's business - a call started
\* for an earlier request may still be on its way; the mechanism's prediction of the calls is compared as drift)
E_NoCheckNoCall(c, g, lg, p, i, gc, req, o) ==
   (NonSkip(req) /\ Sound(c, p) /\ Due(c) = "none") => (o.reached \/ req.kind = "authonly")

LifeRules(c, g, lg, p, i, gc, req, o) ==
   [ C04_E2E_RevocationReaches |-> E_RevocationReaches(c, g, lg, p, i, gc, req, o),
     C04_E2E_RemovalReaches    |-> E_RemovalReaches(c, g, lg, p, i, gc, req, o),
     C04_E2E_DeniedAtOnce      |-> E_DeniedAtOnce(c, g, lg, p, i, gc, req, o),
     C04_E2E_KeepsWorking      |-> E_KeepsWorking(c, g, lg, p, i, gc, req, o),
     C04_E2E_NotDueStillServed     |-> E_NoCheckNoCall(c, g, lg, p, i, gc, req, o) ]

LifeViolated(c, g, lg, p, i, gc, req, o) ==
   LET rs == LifeRules(c, g, lg, p, i, gc, req, o) IN { n \in DOMAIN rs : ~rs[n] }

-----------------------------------------------------------------------------
(* The model *)

VARIABLES idp,    \* [fam, avail, member]
          gcache, \* the authenticator's cache entry
          lg      \* chain ghosts
lvars == <<ck, pol, gh, last, idp, gcache, lg>>

PageReq == [kind |-> "page", path |-> "normal", xhr |-> FALSE]
LifeRequests == {PageReq, [kind |-> "authonly", path |-> "normal", xhr |-> FALSE], [PageReq EXCEPT !.xhr = TRUE]}

LInit ==
   /\ pol \in Policies
   /\ ck = NoCookie /\ gh = NoGhosts /\ last = NoStep
   /\ idp = [fam |-> "live", avail |-> "up", member |-> "yes"]
   /\ gcache = "empty"
   /\ lg = [sinceRevoke |-> NoTime, sinceOut |-> NoTime]

ReGhost(l0, i, gc, p) ==
   [sinceRevoke |-> IF i.fam = "revoked" THEN (IF l0.sinceRevoke = NoTime THEN 0 ELSE l0.sinceRevoke) ELSE NoTime,
    sinceOut    |-> IF OutNow(i, gc, p) THEN (IF l0.sinceOut = NoTime THEN 0 ELSE l0.sinceOut) ELSE NoTime]

\* the whole login (ProxyLogin.tla / SSO.tla cover its gates): the IdP mints a new token family; the proxy's
\* callback asks /profile when the upstream has group rules; the user of this model has an address every e-mail
\* rule admits, so only a group-only upstream refuses a non-member (any rule suffices at login)
LLogin ==
   /\ ck.kind = "none" /\ idp.avail = "up"
   /\ LET i2 == [idp EXCEPT !.fam = "live"]
          prof == IF pol.group THEN ChainProfile(i2, gcache) ELSE "na"
          okg == pol.email \/ prof = "member"
          gc2 == IF pol.group THEN CacheAfter(i2, gcache, {"profile"}) ELSE gcache
          gp == IF pol.group /\ prof # "member" THEN "out" ELSE "in"
      IN /\ idp' = i2
         /\ gcache' = gc2
         /\ ck' = IF okg THEN Sess(TRUE, TRUE, LifeTTL, TokTTL, ValidTTL, NoGrace, "match", TRUE, "old", gp) ELSE NoCookie
         /\ gh' = IF okg THEN FreshGhosts ELSE NoGhosts
         /\ lg' = ReGhost(lg, i2, gc2, pol)
         /\ last' = [ev |-> "login", ok |-> okg]
   /\ UNCHANGED pol

LAdvance(d) ==
   /\ ck.kind = "sess"
   /\ ck' = AdvanceCookie(ck, d)
   /\ gh' = AdvanceGhosts(gh, d)
   /\ lg' = [sinceRevoke |-> Tick(lg.sinceRevoke, d), sinceOut |-> Tick(lg.sinceOut, d)]
   /\ last' = [ev |-> "advance", d |-> d]
   /\ UNCHANGED <<pol, idp, gcache>>

LRequest(req) ==
   /\ ck.kind = "sess"
   /\ LET a == ChainAns(idp, gcache)
          o == Respond(ck, pol, req, a)
          gc2 == CacheAfter(idp, gcache, o.calls)
      IN /\ ck' = o.after
         /\ gh' = StepGhosts(gh, ck, pol, req, a, o)
         /\ gcache' = gc2
         /\ lg' = ReGhost(lg, idp, gc2, pol)
         /\ last' = [ev |-> "request", req |-> req, ans |-> a, out |-> o]
   /\ UNCHANGED <<pol, idp>>

\* the world outside
EnvRevoke ==
   /\ idp.fam = "live" /\ ck.kind = "sess"
   /\ idp' = [idp EXCEPT !.fam = "revoked"]
   /\ lg' = ReGhost(lg, idp', gcache, pol)
   /\ last' = [ev |-> "env", what |-> "revoke"]
   /\ UNCHANGED <<ck, pol, gh, gcache>>
EnvMember(m) ==
   /\ pol.group /\ idp.member # m
   /\ idp' = [idp EXCEPT !.member = m]
   /\ lg' = ReGhost(lg, idp', gcache, pol)
   /\ last' = [ev |-> "env", what |-> "member", to |-> m]
   /\ UNCHANGED <<ck, pol, gh, gcache>>
EnvAvail(x) ==
   /\ idp.avail # x
   /\ idp' = [idp EXCEPT !.avail = x]
   /\ last' = [ev |-> "env", what |-> "avail", to |-> x]
   /\ UNCHANGED <<ck, pol, gh, gcache, lg>>
CacheExpire ==
   /\ gcache # "empty"
   /\ gcache' = "empty"
   /\ lg' = ReGhost(lg, idp, "empty", pol)
   /\ last' = [ev |-> "expire"]
   /\ UNCHANGED <<ck, pol, gh, idp>>

LNext ==
   \/ LLogin
   \/ \E d \in 1..2 : LAdvance(d)
   \/ \E req \in LifeRequests : LRequest(req)
   \/ EnvRevoke
   \/ \E m \in Members : EnvMember(m)
   \/ \E x \in Avails : EnvAvail(x)
   \/ CacheExpire

LSpec == LInit /\ [][LNext]_lvars

-----------------------------------------------------------------------------
(* Checked by TLC *)

\* every request step of the composed mechanism satisfies the end-to-end rules AND ProxySession's rules
LStepRulesHold ==
   last'.ev = "request" =>
      /\ LifeViolated(ck, gh, lg, pol, idp, gcache, last'.req, last'.out) = {}
      /\ Violated(gh, ck, pol, last'.req, last'.ans, last'.out) = {}
LStepOK == [][LStepRulesHold]_lvars
LView == <<ck, pol, gh, idp, gcache, lg>>

LTypeOK ==
   /\ idp.fam \in {"live", "revoked"} /\ idp.avail \in Avails /\ idp.member \in Members
   /\ gcache \in Caches /\ lg \in LifeGhosts

\* state form of the end-to-end promise: a session whose checks are not due was confirmed recently
\* (the revocation can be older than ValidTTL only inside an outage episode)
RevokedSessionIsYoung ==
   (ck.kind = "sess" /\ ck.val >= 0 /\ ck.ref >= 0 /\ lg.sinceRevoke > ValidTTL) => gh.firstFail # NoGrace
=============================================================================
