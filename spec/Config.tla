------------------------------- MODULE Config -------------------------------
(***************************************************************************)
(* Resolution of sso-proxy's upstream configuration (C14).                 *)
(*                                                                         *)
(* Mechanism: the pipeline of internal/proxy/proxy_config.go               *)
(* loadServiceConfigs - ResolveUpstreamConfig (cluster block over default  *)
(* block), ResolveExtraRoute (extra route filled from its parent),         *)
(* ValidateUpstreamConfig, BuildRoute, ParseOptionsConfig (route options   *)
(* over deployment defaults, skip-auth patterns compiled) - and the        *)
(* allow-rule gate of SetUpstreamConfigs (internal/proxy/options.go).      *)
(*                                                                         *)
(* A document is abstracted per service: which blocks exist (default, the  *)
(* selected cluster, another cluster), which route fields and which option *)
(* fields each block states, one extra route (listed in the default block, *)
(* in the cluster block, or in both), which deployment defaults exist.     *)
(* A resolved setting is described by the SOURCE whose value it carries    *)
(* ("def", "clu", "xtr", "env", ...): option values are sequences of       *)
(* sources (one element for lists and scalars, several for maps merged     *)
(* key-wise, highest precedence first; <<>> = empty).                      *)
(*                                                                         *)
(* The property rules C14_xxx are written from the statement over (the      *)
(* abstract document, the observed outcome) and are evaluated              *)
(*  - on the mechanism's own outcome for every document (Leg M),           *)
(*  - on every outcome observed from the real loader (ConfigTrace.tla).    *)
(*                                                                         *)
(* ClusterOptionsWholesale names the deviation D5 (a cluster `options:`    *)
(* block replaces the default block's options as a whole).                 *)
(***************************************************************************)
EXTENDS Integers, Sequences, FiniteSets, TLC

CONSTANTS ClusterOptionsWholesale,  \* TRUE: D5 as found; FALSE: field by field (as documented)
          Families                  \* which slices of the document space Init enumerates

RouteF == {"from", "to", "type"}
OptF   == {"grp", "dom", "adr", "skip", "tmo", "hdr", "slug"}
EnvF   == {"grp", "dom", "adr", "tmo", "slug"}      \* settings with a deployment default
AllowF == {"grp", "dom", "adr"}
MapF   == {"hdr"}                                   \* merged key by key
Paths  == {"hook", "prod"}                          \* loadServiceConfigs alone | SetUpstreamConfigs + New

FromV == {"-", "ok", "badre"}
ToV   == {"-", "ok"}
TypeV == {"-", "simple", "rewrite", "bogus"}

Blk(p, f, t, ty, ho, st, bs) ==
   [present |-> p, from |-> f, to |-> t, type |-> ty, hasOpts |-> ho, st |-> st, badskip |-> bs]
NoBlock == Blk(FALSE, "-", "-", "-", FALSE, {}, FALSE)

Names == {"ok", "spaced", "blank", "missing"}
XIn   == {"none", "def", "clu", "both"}

Svc(n, d, c, oth, xin, x) == [name |-> n, def |-> d, clu |-> c, oth |-> oth, xin |-> xin, xtr |-> x]

-----------------------------------------------------------------------------
(* Mechanism *)

Stated(b, f) ==
   IF f \in RouteF THEN b.present /\ b[f] # "-"
   ELSE b.present /\ b.hasOpts /\ f \in b.st

NoneR == [src |-> "none", val |-> "-"]
RV(b, tag, f) == IF Stated(b, f) THEN [src |-> tag, val |-> b[f]] ELSE NoneR
OV(b, tag, f) == IF Stated(b, f) THEN <<tag>> ELSE <<>>

\* a value of a map field laid over a lower one: keys of `hi` win, the other keys of `lo` stay
Lay(f, hi, lo) ==
   IF hi = <<>> THEN lo
   ELSE IF f \in MapF THEN hi \o SelectSeq(lo, LAMBDA t : \A i \in DOMAIN hi : hi[i] # t)
   ELSE hi

\* ResolveUpstreamConfig: mergo.Merge(default, cluster, WithOverride)
ClusterRoute(s) == [f \in RouteF |-> IF Stated(s.clu, f) THEN RV(s.clu, "clu", f) ELSE RV(s.def, "def", f)]
ClusterOpts(s) ==
   IF ClusterOptionsWholesale /\ s.clu.present /\ s.clu.hasOpts
   THEN [f \in OptF |-> OV(s.clu, "clu", f)]
   ELSE [f \in OptF |-> Lay(f, OV(s.clu, "clu", f), OV(s.def, "def", f))]
ClusterHasOpts(s) == (s.clu.present /\ s.clu.hasOpts) \/ (s.def.present /\ s.def.hasOpts)
\* the skip list in force carries an uncompilable pattern
BadIn(s, tags) ==
   \/ "def" \in tags /\ s.def.badskip
   \/ "clu" \in tags /\ s.clu.badskip
   \/ "xtr" \in tags /\ s.xtr.badskip

\* the extra-route list in force: a list stated by the cluster block replaces the default block's
Resolves(s) == s.def.present \/ s.clu.present
HasExtra(s) == Resolves(s) /\ s.xin # "none"

\* ResolveExtraRoute: mergo.Merge(extra, parent) fills what the extra route leaves out
ExtraRoute(s) == [f \in RouteF |-> IF Stated(s.xtr, f) THEN RV(s.xtr, "xtr", f) ELSE ClusterRoute(s)[f]]
ExtraOpts(s) == [f \in OptF |-> Lay(f, OV(s.xtr, "xtr", f), ClusterOpts(s)[f])]

\* ParseOptionsConfig: deployment default where the route states nothing
WithEnv(o, env) == [f \in OptF |-> IF o[f] # <<>> THEN o[f] ELSE IF f \in EnvF /\ f \in env THEN <<"env">> ELSE <<>>]

SeqSet(q) == { q[i] : i \in DOMAIN q }
AnyAllow(o) == \E f \in AllowF : o[f] # <<>>

Kind(r) == IF r.type.val \in {"-", "simple"} THEN "simple" ELSE IF r.type.val = "rewrite" THEN "rewrite" ELSE "none"

NameAfter(n) == IF n \in {"ok", "spaced"} THEN "ok" ELSE "empty"

Up(s, r, o, env) ==
   [name |-> NameAfter(s.name), from |-> r.from, to |-> r.to, type |-> [src |-> "n/a", val |-> r.type.val], o |-> WithEnv(o, env),
    routeOK |-> TRUE, kind |-> Kind(r), anyAllow |-> AnyAllow(WithEnv(o, env)), raw |-> FALSE]

Resolved(s, env) ==
   IF ~Resolves(s) THEN <<>>
   ELSE <<Up(s, ClusterRoute(s), ClusterOpts(s), env)>> \o
        (IF HasExtra(s) THEN <<Up(s, ExtraRoute(s), ExtraOpts(s), env)>> ELSE <<>>)

\* ValidateUpstreamConfig, BuildRoute, ParseOptionsConfig, SetUpstreamConfigs: what makes the load fail
UpFails(s, u, path) ==
   \/ u.name = "empty"
   \/ u.from.val = "-" \/ u.to.val = "-"
   \/ u.kind = "none"
   \/ u.kind = "rewrite" /\ u.from.val = "badre"
   \/ BadIn(s, SeqSet(u.o["skip"]))
   \/ path = "prod" /\ ~u.anyAllow

Out(err, ups) == [err |-> err, ups |-> ups]

Respond(s, env, path) ==
   LET ups == Resolved(s, env) IN
   IF \E i \in DOMAIN ups : UpFails(s, ups[i], path) THEN Out(TRUE, <<>>) ELSE Out(FALSE, ups)

-----------------------------------------------------------------------------
(* Property rules, from the statement.  s: abstract service; env: the      *)
(* deployment defaults that exist; path; tpl: values were written with     *)
(* template variables; o = [err, ups] the observed outcome, ups = the      *)
(* upstreams that carry this service's name (main route first).            *)

\* the blocks a setting is looked up in, nearest first (statement: cluster over default, extra over parent)
Chain(s, i) ==
   (IF i = 2 THEN <<[b |-> s.xtr, tag |-> "xtr"]>> ELSE <<>>) \o
   <<[b |-> s.clu, tag |-> "clu"], [b |-> s.def, tag |-> "def"]>>

RECURSIVE FirstStating(_, _, _)
FirstStating(ch, f, k) ==
   IF k > Len(ch) THEN 0 ELSE IF Stated(ch[k].b, f) THEN k ELSE FirstStating(ch, f, k + 1)

\* the source whose value the statement demands for setting f of upstream i ("none": stated nowhere)
ExpSrc(s, env, i, f) ==
   LET ch == Chain(s, i)
       k == FirstStating(ch, f, 1)
   IN IF k > 0 THEN ch[k].tag ELSE IF f \in EnvF /\ f \in env THEN "env" ELSE "none"
ExpVal(s, i, f) ==
   LET ch == Chain(s, i)
       k == FirstStating(ch, f, 1)
   IN IF k > 0 THEN ch[k].b[f] ELSE "-"
NearestStates(s, i, f) == Stated(Chain(s, i)[1].b, f)

ExpCount(s) == IF ~Resolves(s) THEN 0 ELSE IF HasExtra(s) THEN 2 ELSE 1

\* a document the statement calls malformed (for the selected cluster)
ExpMalformedUp(s, env, i, path) ==
   \/ s.name \in {"blank", "missing"}
   \/ ExpVal(s, i, "from") = "-" \/ ExpVal(s, i, "to") = "-"
   \/ ExpVal(s, i, "type") = "bogus"
   \/ ExpVal(s, i, "type") = "rewrite" /\ ExpVal(s, i, "from") = "badre"
   \/ LET t == ExpSrc(s, env, i, "skip") IN t # "none" /\ BadIn(s, {t})
   \/ path = "prod" /\ \A f \in AllowF : ExpSrc(s, env, i, f) = "none"
ExpMalformed(s, env, path) == \E i \in 1..ExpCount(s) : ExpMalformedUp(s, env, i, path)

KeptName == [from |-> "C14_Kept_from", to |-> "C14_Kept_to", type |-> "C14_Kept_type",
             grp |-> "C14_Kept_allowed_groups", dom |-> "C14_Kept_allowed_email_domains",
             adr |-> "C14_Kept_allowed_email_addresses", skip |-> "C14_Kept_skip_auth_regex",
             tmo |-> "C14_Kept_timeout", hdr |-> "C14_Kept_header_overrides", slug |-> "C14_Kept_provider_slug"]
StatedName == [from |-> "C14_Stated_from", to |-> "C14_Stated_to", type |-> "C14_Stated_type",
             grp |-> "C14_Stated_allowed_groups", dom |-> "C14_Stated_allowed_email_domains",
             adr |-> "C14_Stated_allowed_email_addresses", skip |-> "C14_Stated_skip_auth_regex",
             tmo |-> "C14_Stated_timeout", hdr |-> "C14_Stated_header_overrides", slug |-> "C14_Stated_provider_slug"]

\* does the observed setting carry the value of source t?  For a map only the winner of every
\* stated key is fixed by the statement (whether the other keys of lower blocks survive is open).
Carries(f, obs, t) ==
   IF f \in RouteF THEN obs.src = t
   ELSE IF t = "none" THEN obs = <<>>
   ELSE IF f \in MapF THEN obs # <<>> /\ obs[1] = t
   ELSE obs = <<t>>
ObsOf(u, f) == IF f \in RouteF THEN u[f] ELSE u.o[f]

FieldViolations(s, env, o) ==
   UNION { { IF NearestStates(s, i, f) THEN StatedName[f] ELSE KeptName[f] :
               f \in { g \in RouteF \cup OptF :
                         IF g = "type" THEN o.ups[i].type.val # ExpVal(s, i, "type")   \* equal type words of different blocks are indistinguishable
                         ELSE ~Carries(g, ObsOf(o.ups[i], g), ExpSrc(s, env, i, g)) } } :
           i \in { j \in DOMAIN o.ups : j <= ExpCount(s) } }

UsesOther(u) ==
   \/ \E f \in RouteF : u[f].src = "oth"
   \/ \E f \in OptF : "oth" \in SeqSet(u.o[f])

Violated(s, env, path, tpl, o) ==
   IF o.err THEN {}
   ELSE
   { n \in {"C14_FailClosed_Service", "C14_FailClosed_Route", "C14_FailClosed_SkipCompiled",
            "C14_FailClosed_AllowRule", "C14_FailClosed_Malformed", "C14_SelectedCluster",
            "C14_TemplateSubstituted"} :
       CASE n = "C14_FailClosed_Service" -> \E i \in DOMAIN o.ups : o.ups[i].name = "empty"
         [] n = "C14_FailClosed_Route" -> \E i \in DOMAIN o.ups : ~o.ups[i].routeOK
         [] n = "C14_FailClosed_SkipCompiled" ->
              \E i \in DOMAIN o.ups : i <= ExpCount(s) /\
                 LET t == ExpSrc(s, env, i, "skip") IN t # "none" /\ BadIn(s, {t})
         [] n = "C14_FailClosed_AllowRule" -> path = "prod" /\ \E i \in DOMAIN o.ups : ~o.ups[i].anyAllow
         [] n = "C14_FailClosed_Malformed" -> ExpMalformed(s, env, path)
         [] n = "C14_SelectedCluster" ->
              \/ \E i \in DOMAIN o.ups : UsesOther(o.ups[i])
              \/ ~Resolves(s) /\ o.ups # <<>> /\ s.oth
         [] n = "C14_TemplateSubstituted" -> tpl /\ \E i \in DOMAIN o.ups : o.ups[i].raw }
   \cup FieldViolations(s, env, o)

-----------------------------------------------------------------------------
(* The document space (Leg M / Leg G).  Three families keep it near 10^4-10^5: *)
(*  opts   route fields fixed and well formed; every block states at most two  *)
(*         option settings (the extra route at most one)                       *)
(*  route  options fixed; every combination of from / to / type over the       *)
(*         blocks, including unknown types and uncompilable patterns           *)
(*  misc   service-name variants, other-cluster blocks, uncompilable skip      *)
(*         patterns at every level, no allow rule anywhere                     *)

Small(n) == { S \in SUBSET OptF : Cardinality(S) <= n }

OptsBlocks(n) == { Blk(TRUE, "-", "-", "-", FALSE, {}, FALSE) } \cup { Blk(TRUE, "-", "-", "-", TRUE, S, FALSE) : S \in Small(n) }
WithRoute(b, f, t) == [b EXCEPT !.from = f, !.to = t]

EnvSets == { {}, {"dom", "tmo", "slug"}, {"grp", "adr"}, {"tmo", "slug"}, {"dom", "adr", "grp", "tmo", "slug"} }
HookEnvs == { {}, {"dom", "tmo", "slug"}, {"grp", "adr"} }

OptsFamily ==
   { [s |-> Svc("ok", WithRoute(d, "ok", "ok"), c, FALSE, IF x.present THEN "def" ELSE "none", x), env |-> e] :
       d \in OptsBlocks(2),
       c \in {NoBlock} \cup OptsBlocks(2),
       x \in {NoBlock} \cup { WithRoute(b, "ok", "-") : b \in OptsBlocks(1) },
       e \in HookEnvs }

DomOpts(b) == [b EXCEPT !.hasOpts = TRUE, !.st = {"dom"}]
RouteFamily ==
   { [s |-> Svc("ok", d, c, FALSE, xin, x), env |-> {"dom"}] :
       d \in {NoBlock} \cup { DomOpts(Blk(TRUE, f, t, ty, FALSE, {}, FALSE)) : f \in {"-", "ok"}, t \in ToV, ty \in TypeV },
       c \in {NoBlock} \cup { Blk(TRUE, f, t, ty, FALSE, {}, FALSE) : f \in FromV, t \in ToV, ty \in TypeV },
       xin \in XIn,
       x \in {NoBlock} \cup { Blk(TRUE, f, t, ty, FALSE, {}, FALSE) : f \in FromV, t \in ToV, ty \in {"-", "rewrite", "bogus"} } }

MiscDef == { Blk(TRUE, "ok", "ok", "-", TRUE, S, bs) :
               S \in { {"dom"}, {"skip", "dom"}, {}, {"skip"}, {"hdr", "grp"} }, bs \in BOOLEAN }
MiscClu == { NoBlock } \cup { Blk(TRUE, "-", "-", "-", TRUE, S, bs) : S \in { {"skip"}, {"tmo"}, {"hdr"} }, bs \in BOOLEAN }
MiscX   == { NoBlock } \cup { Blk(TRUE, "ok", "-", "-", ho, S, bs) : ho \in BOOLEAN, S \in { {}, {"skip"}, {"hdr"} }, bs \in BOOLEAN }
MiscFamily ==
   { [s |-> Svc(n, d, c, oth, IF x.present THEN xin ELSE "none", x), env |-> e] :
       n \in Names, d \in {NoBlock} \cup MiscDef, c \in MiscClu, oth \in BOOLEAN, xin \in {"def", "clu"}, x \in MiscX,
       e \in { {}, {"dom"} } }

\* shapes that cannot be written down are left out
WellShaped(s) ==
   /\ s.xin \in {"def", "both"} => s.def.present
   /\ s.xin \in {"clu", "both"} => s.clu.present
   /\ s.xin = "none" => s.xtr = NoBlock
   /\ s.xin # "none" => s.xtr.present
   /\ \A b \in {s.def, s.clu, s.xtr} : b.badskip => Stated(b, "skip")
   /\ \A b \in {s.def, s.clu, s.xtr} : (~b.hasOpts) => b.st = {}

VARIABLES doc, out
vars == <<doc, out>>

Pending == [err |-> FALSE, ups |-> <<>>, pending |-> TRUE]

\* (a disjunction, not one big union: TLC enumerates each family on its own)
Init == /\ \/ "opts" \in Families /\ doc \in OptsFamily
           \/ "route" \in Families /\ doc \in RouteFamily
           \/ "misc" \in Families /\ doc \in MiscFamily
        /\ WellShaped(doc.s)
        /\ out = Pending
Load == /\ "pending" \in DOMAIN out
        /\ out' = Respond(doc.s, doc.env, "hook")
        /\ UNCHANGED doc
Next == Load
Spec == Init /\ [][Next]_vars

\* Leg M: on every document, under both paths and with or without templates, the mechanism's
\* outcome satisfies every rule
RulesHold ==
   "pending" \in DOMAIN out \/
   \A p \in Paths : \A tpl \in BOOLEAN :
      LET e == IF p = "prod" THEN (doc.env \cap AllowF) \cup {"tmo", "slug"} ELSE doc.env
      IN Violated(doc.s, e, p, tpl, Respond(doc.s, e, p)) = {}

\* shape of the mechanism's outcome
TypeOK ==
   /\ "pending" \in DOMAIN out \/
        (/\ out.err \in BOOLEAN
         /\ Len(out.ups) <= 2
         /\ \A i \in DOMAIN out.ups : out.ups[i].kind \in {"simple", "rewrite"} /\ out.ups[i].name = "ok")
=============================================================================
