\* Leg M: every cell of the dispatch table; the mechanism keeps the rules
SPECIFICATION Spec
INVARIANTS MechOK
CHECK_DEADLOCK FALSE
