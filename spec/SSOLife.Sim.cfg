\* Leg G: random walks of the composed chain (tlc -simulate), the constants of the fixture
SPECIFICATION GenSpec
CONSTANTS
  ValidTTL = 1
  GraceTTL = 2
  LifeTTL = 6
  Expiries = {1, 3}
  TokTTL = 3
  LenientValidate = FALSE
  Forge = FALSE
  SimLen = 24
ACTION_CONSTRAINT Emit
CHECK_DEADLOCK FALSE
