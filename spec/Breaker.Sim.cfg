SPECIFICATION GenSpec
CONSTANTS
  Calls = {1, 2, 3, 4, 5}
  TripN = 3
  ResetN = 2
  Cap = 2
  MaxCount = 3
  MaxBackoff = 3
  SimLen = 120
ACTION_CONSTRAINT EmitSim
CHECK_DEADLOCK FALSE
