-------------------------- MODULE AuthSessionGen --------------------------
(* Leg G: emit every one-step cell of AuthSession (Forge = TRUE) as JSON:   *)
(* configuration, cookie before / callback inputs, identity-provider        *)
(* answers and the mechanism's prediction.                                  *)
EXTENDS AuthSession, Json

Emit ==
   CASE last'.ev = "signin" ->
          PrintT(<<"CELL", ToJson([ev |-> "signin", cfg |-> cfg, c |-> ck, ans |-> last'.ans, pred |-> last'.out])>>)
     [] last'.ev = "callback" ->
          PrintT(<<"CELL", ToJson([ev |-> "callback", cfg |-> cfg, rel |-> last'.rel, redir |-> last'.redir, em |-> last'.em,
                                   tok |-> last'.tok, ui |-> last'.ui, vouched |-> Vouched(cfg.prov, last'.tok, last'.ui), pred |-> last'.out])>>)
     [] last'.ev = "redeem" ->
          PrintT(<<"CELL", ToJson([ev |-> "redeem", cfg |-> cfg, tok |-> last'.tok, ui |-> last'.ui, vouched |-> Vouched(cfg.prov, last'.tok, last'.ui), pred |-> last'.out])>>)
     [] OTHER -> TRUE
=============================================================================
