SPECIFICATION TSpec
CONSTANTS
  LifeTTL = 6
  Expiries = {1, 3}
  Forge = FALSE
  D2 = FALSE
CONSTRAINT Track
POSTCONDITION Accepted
CHECK_DEADLOCK FALSE
