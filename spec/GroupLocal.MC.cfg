SPECIFICATION Spec
CONSTANTS
  Users = {"u1", "u2"}
  Groups = {"g1", "g2"}
  Callers = {"t1", "t2"}
  MemberVals = {{}, {"g1"}, {"g1", "g2"}}
  Coarse = FALSE
  Questions <- Questions2
INVARIANTS CacheOnlyWhatWasSaid
PROPERTIES OnlyWhatWasSaid WithinQuestion ErrorsNotCached
VIEW View
CHECK_DEADLOCK FALSE
