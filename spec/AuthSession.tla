---------------------------- MODULE AuthSession ----------------------------
(***************************************************************************)
(* One browser at sso-auth (one provider slug).                            *)
(*                                                                         *)
(* Mechanism (internal/auth/authenticator.go, mux.go, providers/google.go,  *)
(* providers/okta.go):                                                     *)
(*   /sign_in   authenticate(): LoadSession, LifetimeCheck, Refresh |      *)
(*              Validate with the identity provider, SaveSession, any-of   *)
(*              validators (one validator: addresses or domains), then     *)
(*              ProxyOAuthRedirect (the only place a code is minted)       *)
(*   /start     OAuthStart: nonce cookie + state = base64(nonce:redirect)  *)
(*   /callback  getOAuthCallback: Redeem, state decode, nonce == CSRF      *)
(*              cookie, redirect domain, validators, SaveSession           *)
(*   Redeem     provider.Redeem: token answer, id_token (Google) or        *)
(*              userinfo (Okta), email + email_verified                    *)
(*                                                                         *)
(* Time is in units U, deadlines are held as REMAINING units (-1 =         *)
(* expired): the model is finite and Leg M covers all histories.           *)
(*                                                                         *)
(* Properties (C09, C10) are the operators R_* below, written from the     *)
(* statements over (cookie before, ghosts, configuration, identity-        *)
(* provider answers, observed outcome).  They are evaluated                *)
(*  - on every transition of this model (Leg M, action property StepOK)    *)
(*  - on every step observed from the real sso-auth (AuthSessionTrace).    *)
(***************************************************************************)
EXTENDS Integers, Sequences, FiniteSets, TLC

CONSTANTS LifeTTL,    \* authenticator session lifetime, units
          Expiries,   \* access-token expiries the identity provider may answer, units
          Forge,      \* TRUE: Init admits every cookie content (one-step cells); FALSE: only real histories
          D2          \* TRUE: emailFromIDToken indexes segment 1 without a length check (as implemented, defect D2)

Provs == {"google", "okta", "cognito"}   \* cognito: /callback and Redeem only (its /sign_in path is not modelled)
Pols  == {"domains", "addresses"}        \* mux.go:22-27 - ONE validator, addresses if any are configured, else domains
Cfgs  == [prov : Provs, pol : Pols]

Clip(n) == IF n < -1 THEN -1 ELSE n
MaxExp == CHOOSE e \in Expiries : \A f \in Expiries : f <= e
MinExp == CHOOSE e \in Expiries : \A f \in Expiries : e <= f

Emails == {"allowed", "denied", "empty"}  \* the session's email against the configured rule

NoCookie == [kind |-> "none", life |-> -1, ref |-> -1, rt |-> FALSE, at |-> FALSE, email |-> "empty"]
Bad(k) == [NoCookie EXCEPT !.kind = k]
Sess(li, re, rt, at, em) == [kind |-> "sess", life |-> li, ref |-> re, rt |-> rt, at |-> at, email |-> em]

ForgedCookies ==
   { Bad(k) : k \in {"none", "garbage", "otherkey"} } \cup
   { Sess(li, re, rt, at, em) : li \in {-1, 0, 2, LifeTTL}, re \in {-1, 0, MaxExp}, rt \in BOOLEAN, at \in BOOLEAN, em \in Emails }

-----------------------------------------------------------------------------
(* Identity-provider answers consulted by /sign_in *)

RefreshA == {"ok", "revoked", "s400", "s401", "s429", "s500", "s503", "closed", "cut", "badjson", "na"}
\* Google's tokeninfo is judged by status only; Okta's introspection by the body's "active"
ValidateA(prov) == {"ok", "invalid", "s401", "s429", "s500", "s503", "closed", "na"}
                   \cup (IF prov = "okta" THEN {"badjson", "cut"} ELSE {})

\* Every cell offers the provider's most favourable answers on the endpoints the mechanism does not consult
\* (an expired or unauthentic cookie, the endpoint that is not due), so that a code path that wrongly consults
\* them, or wrongly falls through, finds the provider saying yes.
AllOK == [refresh |-> "ok", rexp |-> MinExp, validate |-> "ok"]

Due(c) == IF c.ref < 0 THEN "refresh" ELSE "validate"

AnswersFor(c, cfg) ==
   IF c.kind # "sess" THEN {AllOK}
   ELSE IF Due(c) = "refresh"
        THEN { [AllOK EXCEPT !.rexp = e] : e \in Expiries } \cup
             (IF c.rt /\ c.life >= 0 THEN { [AllOK EXCEPT !.refresh = r] : r \in RefreshA \ {"ok", "na"} } ELSE {})
        ELSE {AllOK} \cup
             (IF c.at /\ c.life >= 0 THEN { [AllOK EXCEPT !.validate = v] : v \in ValidateA(cfg.prov) \ {"ok", "na"} } ELSE {})

-----------------------------------------------------------------------------
(* Mechanism: /sign_in *)

SI(kind, status, after, calls) ==
   [kind |-> kind, status |-> status, code |-> kind = "code", leak |-> FALSE, after |-> after, calls |-> calls,
    lifeCmp |-> 0, codeOk |-> kind = "code", codeLifeCmp |-> 0, codeEmail |-> IF kind = "code" THEN after.email ELSE "na",
    loginCmp |-> 0, codeLoginCmp |-> 0]

\* authenticator.go:231-236 - any-of over ONE validator
Validators(c, calls) ==
   IF c.email = "allowed" THEN SI("code", 302, c, calls)          \* ProxyOAuthRedirect
   ELSE SI("error", 401, c, calls)                                 \* the refreshed / validated cookie was already saved

\* providers: RefreshSessionIfNeeded touches only AccessToken and RefreshDeadline
RefreshBranch(c, a) ==
   IF ~c.rt THEN SI("error", 401, NoCookie, {})                    \* (false, nil): not authorized after refresh
   ELSE CASE a.refresh = "ok"      -> Validators([c EXCEPT !.ref = a.rexp, !.at = TRUE], {"refresh"})
          [] a.refresh = "revoked" -> SI("signin", 200, NoCookie, {"refresh"})
          [] a.refresh = "s400"    -> SI("error", 400, NoCookie, {"refresh"})
          [] a.refresh = "s429"    -> SI("error", 429, NoCookie, {"refresh"})
          [] a.refresh \in {"s401", "s500", "s503"} -> SI("error", 503, NoCookie, {"refresh"})
          [] OTHER                 -> SI("error", 500, NoCookie, {"refresh"})

ValidateBranch(c, a) ==
   IF ~c.at THEN SI("error", 401, NoCookie, {})
   ELSE IF a.validate = "ok" THEN Validators(c, {"validate"})
   ELSE SI("error", 401, NoCookie, {"validate"})

\* Authenticator.authenticate + SignIn dispatch
SignInStep(c, a) ==
   IF c.kind # "sess" THEN SI("signin", 200, NoCookie, {})         \* ErrNoCookie / ErrInvalidSession
   ELSE IF c.life < 0 THEN SI("signin", 200, NoCookie, {})         \* ErrLifetimeExpired
   ELSE IF c.ref < 0 THEN RefreshBranch(c, a)
   ELSE ValidateBranch(c, a)

-----------------------------------------------------------------------------
(* Identity-provider answers consulted by /callback (C10's classes) *)

Statuses == {"s200", "s400rev", "s400", "s401", "s429", "s500", "s503", "closed", "cutmid", "cutafter"}
\* s400rev = 400 with the provider's "revoked" text; closed = connection closed without an answer;
\* cutmid = 200, full Content-Length declared, cut inside the document;
\* cutafter = 200, a complete valid document delivered but the declared length never reached
Bodies == {"ok", "noat", "trailing", "seconddoc", "notjson", "truncated", "wrongtypes", "empty", "na"}
Claims == {"verified", "unverified", "vmissing", "vnonbool", "emailempty", "emailmissing", "na"}

NoTok == [st |-> "s200", body |-> "ok", segs |-> -1, b64 |-> "na", pj |-> "na", claims |-> "na"]
NoUI  == [st |-> "na", body |-> "na", claims |-> "na"]

\* answers that are not a complete 200 document
BrokenSt == { [st |-> s, body |-> b] : s \in Statuses \ {"s200", "closed", "cutmid", "cutafter"}, b \in {"ok", "notjson"} }
            \cup { [st |-> "closed", body |-> "na"], [st |-> "cutmid", body |-> "ok"], [st |-> "cutafter", body |-> "ok"] }
            \cup { [st |-> "s200", body |-> b] : b \in {"trailing", "seconddoc", "notjson", "truncated", "wrongtypes", "empty"} }

\* id_token shapes of a Google token answer whose envelope is in order
IdTokens ==
   { [segs |-> n, b64 |-> "na", pj |-> "na", claims |-> "na"] : n \in {0, 1} } \cup
   { [segs |-> n, b64 |-> "bad", pj |-> "na", claims |-> "na"] : n \in {2, 3, 4} } \cup
   { [segs |-> n, b64 |-> "ok", pj |-> "bad", claims |-> "na"] : n \in {2, 3, 4} } \cup
   { [segs |-> n, b64 |-> "ok", pj |-> "ok", claims |-> cl] : n \in {2, 3, 4}, cl \in Claims \ {"na"} }

\* for a broken envelope the embedded document is the most dangerous one: complete, verified
GoodId == [segs |-> 3, b64 |-> "ok", pj |-> "ok", claims |-> "verified"]

Tok(e, i) == [st |-> e.st, body |-> e.body, segs |-> i.segs, b64 |-> i.b64, pj |-> i.pj, claims |-> i.claims]

CallbackAnswers(prov) ==
   IF prov = "google"
   THEN { [tok |-> Tok(e, GoodId), ui |-> NoUI] : e \in BrokenSt } \cup
        { [tok |-> Tok([st |-> "s200", body |-> b], i), ui |-> NoUI] : b \in {"ok"}, i \in IdTokens } \cup
        { [tok |-> Tok([st |-> "s200", body |-> "noat"], GoodId), ui |-> NoUI] }
   ELSE { [tok |-> Tok(e, [segs |-> -1, b64 |-> "na", pj |-> "na", claims |-> "na"]), ui |-> NoUI] :
             e \in BrokenSt \cup {[st |-> "s200", body |-> "noat"]} } \cup
        { [tok |-> NoTok, ui |-> [st |-> e.st, body |-> e.body, claims |-> "verified"]] : e \in BrokenSt } \cup
        { [tok |-> NoTok, ui |-> [st |-> "s200", body |-> "ok", claims |-> cl]] : cl \in Claims \ {"na"} }

\* provider.Redeem
Redeem(prov, tok, ui) ==
   IF prov = "google"
   THEN IF tok.st # "s200" \/ tok.body \notin {"ok", "noat"} THEN "error"        \* googleRequest
        ELSE IF tok.segs < 2 THEN (IF D2 THEN "panic" ELSE "error")               \* emailFromIDToken: jwt[1]
        ELSE IF tok.b64 # "ok" \/ tok.pj # "ok" THEN "error"
        ELSE IF tok.claims # "verified" THEN "error"
        ELSE "session"
   ELSE IF tok.st # "s200" \/ tok.body # "ok" THEN "error"                        \* oktaRequest; no access token: ErrBadRequest
        ELSE IF ui.st # "s200" \/ ui.body # "ok" THEN "error"                     \* GetUserProfile
        ELSE IF prov = "okta" /\ ui.claims # "verified" THEN "error"              \* verifyEmailWithAccessToken
        ELSE IF prov = "cognito" /\ ui.claims \in {"emailempty", "emailmissing"} THEN "error"   \* Cognito: "missing email"
        ELSE "session"

\* nonce in the state vs. the CSRF cookie the browser sends
Different == {"otherflow",   \* the state of another /start (login CSRF: the attacker's flow, the victim's cookie)
              "lastchar", "upper", "prefix", "extended", "emptynonce", "halfnonce", "unrelated"}
Rels      == {"equal", "nocookie", "notb64", "nocolon"} \cup Different
RelsShort == {"equal", "nocookie", "notb64", "nocolon", "otherflow", "unrelated"}
Redirs == {"indomain", "outdomain"}

CB(kind, status, sess, em) ==
   [kind |-> kind, status |-> status, sess |-> sess, sessEmail |-> IF sess THEN em ELSE "na", emailSame |-> sess,
    sessLife |-> IF sess THEN LifeTTL ELSE -1, locSame |-> kind = "redirect"]

\* getOAuthCallback + OAuthCallback
CallbackStep(prov, rel, redir, em, tok, ui) ==
   LET r == Redeem(prov, tok, ui) IN
   IF r = "panic" THEN CB("crash", 0, FALSE, em)
   ELSE IF r = "error" THEN CB("error", 500, FALSE, em)
   ELSE IF rel \in {"notb64", "nocolon"} THEN CB("error", 500, FALSE, em)
   ELSE IF rel \in {"nocookie"} \cup Different THEN CB("error", 403, FALSE, em)
   ELSE IF redir # "indomain" THEN CB("error", 403, FALSE, em)
   ELSE IF em # "allowed" THEN CB("error", 403, FALSE, em)
   ELSE CB("redirect", 302, TRUE, em)

RD(res) == [res |-> res, emailSame |-> res = "session"]

\* OAuthStart (redirect-URI gates are AuthGate.tla's): nonce cookie, state, off to the provider
StartStep == [status |-> 302, toIdP |-> TRUE, csrfSet |-> TRUE, nonceEq |-> TRUE, fresh |-> TRUE]

-----------------------------------------------------------------------------
(* Property-level rules *)

\* C09: the session the browser presents entitles it to a code
ProviderAccepts(c, a, o) ==
   IF Due(c) = "refresh" THEN c.rt /\ "refresh" \in o.calls /\ a.refresh = "ok"
                         ELSE c.at /\ "validate" \in o.calls /\ a.validate = "ok"
Entitled(c, a, o) ==
   /\ c.kind = "sess"            \* authentic
   /\ c.life >= 0                \* within its lifetime
   /\ ProviderAccepts(c, a, o)          \* the provider currently accepts the token (after a refresh if one was due)
   /\ c.email = "allowed"        \* the email satisfies the authenticator's rule

R_C09_CodeOnlyIfLive(c, a, o) == o.code => Entitled(c, a, o)
R_C09_NoCodeOtherwise(c, a, o) ==
   ~Entitled(c, a, o) => (~o.leak /\ o.kind \in {"signin", "error", "none"})
\* the code that is handed out is for the presented session: it opens to a session whose email satisfies the rule
R_C09_CodeForAllowedEmail(c, a, o) == (o.code /\ o.codeOk) => o.codeEmail = "allowed"
\* the lifetime instant never moves forward: in the re-issued cookie, and in the session inside the code
R_C09_LifeNeverExtended(c, a, o) ==
   (c.kind = "sess" /\ o.after.kind = "sess") => (o.lifeCmp <= 0 /\ o.after.life <= c.life)
R_C09_CodeLifeNeverExtended(c, a, o) == (o.code /\ o.codeOk /\ c.kind = "sess") => o.codeLifeCmp <= 0
\* histories: against the instant stamped at login (ghost)
R_C09_LifetimeBound(gh, o) == (o.code /\ gh.sinceLogin >= 0) => gh.sinceLogin <= LifeTTL
R_C09_LoginLifeNeverExtended(gh, o) ==
   gh.sinceLogin >= 0 => /\ (o.after.kind = "sess" => (o.loginCmp <= 0 /\ o.after.life <= Clip(LifeTTL - gh.sinceLogin)))
                         /\ ((o.code /\ o.codeOk) => o.codeLoginCmp <= 0)

SignInRules(gh, c, a, o) ==
   [ C09_CodeOnlyIfLive           |-> R_C09_CodeOnlyIfLive(c, a, o),
     C09_NoCodeOtherwise          |-> R_C09_NoCodeOtherwise(c, a, o),
     C09_CodeForAllowedEmail      |-> R_C09_CodeForAllowedEmail(c, a, o),
     C09_LifeNeverExtended        |-> R_C09_LifeNeverExtended(c, a, o),
     C09_CodeLifeNeverExtended    |-> R_C09_CodeLifeNeverExtended(c, a, o),
     C09_LifetimeBound            |-> R_C09_LifetimeBound(gh, o),
     C09_LoginLifeNeverExtended   |-> R_C09_LoginLifeNeverExtended(gh, o) ]
SignInViolated(gh, c, a, o) == LET rs == SignInRules(gh, c, a, o) IN { n \in DOMAIN rs : ~rs[n] }

\* C10: the provider vouches for the email of this answer.  Left open by the statement (never alarmed on):
\* an id_token of 2 or 4 segments whose payload is in order, a token answer without an access token (Google)
Vouched(prov, tok, ui) ==
   IF prov = "google"
   THEN tok.st = "s200" /\ tok.body \in {"ok", "noat"} /\ tok.segs >= 2 /\ tok.b64 = "ok" /\ tok.pj = "ok" /\ tok.claims = "verified"
   ELSE /\ tok.st = "s200" /\ tok.body = "ok" /\ ui.st = "s200" /\ ui.body = "ok"
        /\ IF prov = "okta" THEN ui.claims = "verified"
           ELSE ui.claims \in {"verified", "unverified", "vmissing", "vnonbool"}   \* "and, for Google and Okta, one it marks as verified"

R_C09_CallbackNonceBound(rel, o) == o.sess => rel = "equal"
R_C10_SessionOnlyVouched(prov, tok, ui, o) == o.sess => (Vouched(prov, tok, ui) /\ o.emailSame)
R_C10_ErrorNoSession(prov, tok, ui, o) ==
   ~Vouched(prov, tok, ui) => (~o.sess /\ ((o.kind = "error" /\ o.status >= 400) \/ o.kind = "crash"))
R_C10_NoCrash(o) == o.kind # "crash"

CallbackRules(prov, rel, tok, ui, o) ==
   [ C09_CallbackNonceBound |-> R_C09_CallbackNonceBound(rel, o),
     C10_SessionOnlyVouched |-> R_C10_SessionOnlyVouched(prov, tok, ui, o),
     C10_ErrorNoSession     |-> R_C10_ErrorNoSession(prov, tok, ui, o),
     C10_NoCrash            |-> R_C10_NoCrash(o) ]
CallbackViolated(prov, rel, tok, ui, o) == LET rs == CallbackRules(prov, rel, tok, ui, o) IN { n \in DOMAIN rs : ~rs[n] }

RedeemRules(prov, tok, ui, o) ==
   [ C10_RedeemOnlyVouched |-> (o.res = "session" => (Vouched(prov, tok, ui) /\ o.emailSame)),
     C10_RedeemNoCrash     |-> o.res # "panic" ]
RedeemViolated(prov, tok, ui, o) == LET rs == RedeemRules(prov, tok, ui, o) IN { n \in DOMAIN rs : ~rs[n] }

\* /start: the state handed to the provider carries the very nonce put into the browser's cookie, a new one every time
StartViolated(o) == IF o.toIdP /\ ~(o.csrfSet /\ o.nonceEq /\ o.fresh) THEN {"C09_StartBindsNonce"} ELSE {}

-----------------------------------------------------------------------------
(* Ghosts *)

Unknown == -1
NoGhosts == [sinceLogin |-> Unknown]
FreshGhosts == [sinceLogin |-> 0]
GhostsOfForged(c) ==
   [sinceLogin |-> IF c.kind = "sess" THEN (IF c.life >= 0 THEN LifeTTL - c.life ELSE LifeTTL + 1) ELSE Unknown]
Cap(n, top) == IF n > top THEN top ELSE n
AdvanceGhosts(gh, d) == [sinceLogin |-> IF gh.sinceLogin = Unknown THEN Unknown ELSE Cap(gh.sinceLogin + d, LifeTTL + 1)]
AdvanceCookie(c, d) == IF c.kind # "sess" THEN c ELSE [c EXCEPT !.life = Clip(@ - d), !.ref = Clip(@ - d)]
StepGhosts(gh, o) == IF o.after.kind = "sess" THEN gh ELSE NoGhosts

-----------------------------------------------------------------------------
(* The model *)

VARIABLES ck,    \* authenticator session cookie the browser holds
          cfg,   \* provider type and email rule kind
          gh,    \* ghosts
          last   \* last step (observation only)
vars == <<ck, cfg, gh, last>>

NoStep == [ev |-> "init"]

Init ==
   /\ cfg \in Cfgs
   /\ last = NoStep
   /\ IF Forge THEN ck \in ForgedCookies /\ gh = GhostsOfForged(ck)
               ELSE ck = NoCookie /\ gh = NoGhosts

Start ==
   /\ ~Forge /\ cfg.prov # "cognito"
   /\ last' = [ev |-> "start", out |-> StartStep]
   /\ UNCHANGED <<ck, cfg, gh>>

\* one-step /callback: the session cookie the browser already holds plays no part
Callback(rel, redir, em, ans) ==
   /\ IF Forge THEN last.ev = "init" /\ ck.kind = "none" ELSE last.ev = "start"
   /\ LET o == CallbackStep(cfg.prov, rel, redir, em, ans.tok, ans.ui) IN
        /\ last' = [ev |-> "callback", rel |-> rel, redir |-> redir, em |-> em, tok |-> ans.tok, ui |-> ans.ui, out |-> o]
        /\ IF o.sess
           THEN \E e \in (IF Forge THEN {MinExp} ELSE Expiries), rt \in (IF Forge THEN {TRUE} ELSE BOOLEAN) :
                   /\ ck' = Sess(LifeTTL, e, rt, TRUE, em)
                   /\ gh' = FreshGhosts
           ELSE UNCHANGED <<ck, gh>>
   /\ UNCHANGED cfg

RedeemDirect(ans) ==
   /\ Forge /\ last.ev = "init" /\ ck.kind = "none" /\ cfg.pol = "domains"
   /\ last' = [ev |-> "redeem", tok |-> ans.tok, ui |-> ans.ui, out |-> RD(Redeem(cfg.prov, ans.tok, ans.ui))]
   /\ UNCHANGED <<ck, cfg, gh>>

Advance(d) ==
   /\ ~Forge /\ cfg.prov # "cognito"
   /\ ck.kind = "sess"
   /\ ck' = AdvanceCookie(ck, d)
   /\ gh' = AdvanceGhosts(gh, d)
   /\ last' = [ev |-> "advance", d |-> d]
   /\ UNCHANGED cfg

SignIn(a) ==
   /\ Forge => last.ev = "init"
   /\ cfg.prov # "cognito"
   /\ LET o == SignInStep(ck, a) IN
        /\ ck' = o.after
        /\ gh' = StepGhosts(gh, o)
        /\ last' = [ev |-> "signin", ans |-> a, out |-> o]
   /\ UNCHANGED cfg

\* the answers that matter: every broken / unvouched class with the callback otherwise in order, and the
\* vouched answers with every state / cookie / redirect / email combination
CallbackCases(prov) ==
   { <<rel, redir, em, ans>> \in Rels \X Redirs \X {"allowed", "denied"} \X CallbackAnswers(prov) :
        Vouched(prov, ans.tok, ans.ui) \/ (em = "allowed" /\ redir = "indomain" /\ rel \in RelsShort) }

Next ==
   \/ Start
   \/ \E cs \in CallbackCases(cfg.prov) : Callback(cs[1], cs[2], cs[3], cs[4])
   \/ \E ans \in CallbackAnswers(cfg.prov) : RedeemDirect(ans)
   \/ \E d \in 1..3 : Advance(d)
   \/ \E a \in AnswersFor(ck, cfg) : SignIn(a)

Spec == Init /\ [][Next]_vars

-----------------------------------------------------------------------------
(* Checked by TLC *)

StepRulesHold ==
   /\ last'.ev = "signin" => SignInViolated(gh, ck, last'.ans, last'.out) = {}
   /\ last'.ev = "callback" => CallbackViolated(cfg.prov, last'.rel, last'.tok, last'.ui, last'.out) = {}
   /\ last'.ev = "redeem" => RedeemViolated(cfg.prov, last'.tok, last'.ui, last'.out) = {}
   /\ last'.ev = "start" => StartViolated(last'.out) = {}
StepOK == [][StepRulesHold]_vars
View == <<ck, cfg, gh, last.ev>>

TypeOK ==
   /\ ck.kind \in {"none", "garbage", "otherkey", "sess"}
   /\ ck.kind = "sess" => ck.life \in -1..LifeTTL /\ ck.ref \in -1..LifeTTL
\* real histories: the cookie's lifetime is the one stamped at login, whatever refreshes happened since
LifeMatchesGhost == (~Forge /\ ck.kind = "sess") => ck.life = Clip(LifeTTL - gh.sinceLogin)
=============================================================================
