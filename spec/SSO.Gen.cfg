SPECIFICATION GenSpec
CONSTANTS
  MaxFlows = 2
  MaxNonces = 1
  CheckProxyCSRF = TRUE
  CheckAuthNonce = TRUE
  SimLen = 0
ACTION_CONSTRAINT Emit
VIEW View
CHECK_DEADLOCK FALSE
