-------------------------------- MODULE Rules --------------------------------
(***************************************************************************)
(* Allow rules of one sso-proxy upstream (C11).                            *)
(*                                                                         *)
(* Documented semantics (docs/sso_config.md:49-50 and the statement): a    *)
(* user is admitted exactly when they satisfy at least one configured      *)
(* rule - listed address (case-insensitive, exact), listed domain (case-   *)
(* insensitive, the whole text after the last @), listed group as the      *)
(* provider reports it; a lone * admits any non-empty e-mail; an empty     *)
(* e-mail or an empty rule set admits nobody - and the verdict is the same *)
(* at login and at every later request while those facts are unchanged.    *)
(*                                                                         *)
(* Mechanism: the three places where sso-proxy evaluates the rules,        *)
(*   LoginCallback        OAuthCallback, oauthproxy.go:481-496             *)
(*   LaterRequest         Authenticate, no check due, oauthproxy.go:720-733*)
(*   RevalidationRequest  Authenticate with ValidateSessionState due       *)
(*                        (providers/sso.go:336-400) + the same loop       *)
(* over the validators of internal/pkg/validators.  Where the code departs *)
(* from the documented semantics the departure is a NAMED constant:        *)
(*   PerRequestAllOf        later requests require EVERY configured e-mail *)
(*                          rule (address, domain) to pass          (D3)   *)
(*   RevalidationNeedsGroup a due revalidation requires the group rule,    *)
(*                          whatever the e-mail rules say           (D3)   *)
(*   StarEntryIsSuffix      a "*" entry of a longer domain list is matched *)
(*                          as a suffix (HasSuffix(email, "*"))            *)
(* All FALSE = as documented: TLC shows the verdict is Admit at every      *)
(* phase.  All TRUE = as implemented: TLC produces the counterexamples.    *)
(***************************************************************************)
EXTENDS Integers, Sequences, FiniteSets, TLC

CONSTANTS PerRequestAllOf, RevalidationNeedsGroup, StarEntryIsSuffix

\* shape of a configured list: not configured, [x], [x, y], ["*"], [x, "*"]
ListShapes == {"none", "x", "xy", "star", "xstar"}
HasEntries(sh) == sh \in {"x", "xy", "xstar"}

\* the e-mail against the address list / the domain list
\*   exact  identical to an entry          case   equal to an entry but for letter case
\*   look   a look-alike of an entry (prefix / suffix / sub-domain / trailing dot or blank / more than one @)
\*   other  unrelated                      tail   (domain only) the domain ends in "*" without being "*"
\*   na     the list has no entries to compare with (none / star) or the e-mail is empty
AddrRels == {"exact", "case", "look", "other"}
DomRels  == {"exact", "case", "look", "other", "tail"}
\* what the provider answers about the listed groups
GroupFacts == {"member", "nonmember", "error"}

Cells ==
   { [addr |-> a, dom |-> d, grp |-> g, empty |-> e, ea |-> ra, ed |-> rd, g |-> gf] :
       a \in ListShapes, d \in ListShapes, g \in ListShapes, e \in BOOLEAN,
       ra \in AddrRels \cup {"na"}, rd \in DomRels \cup {"na"}, gf \in GroupFacts \cup {"na"} }

ValidCell(c) ==
   /\ c.ea = "na" <=> (c.empty \/ ~HasEntries(c.addr))
   /\ c.ed = "na" <=> (c.empty \/ ~HasEntries(c.dom))
   /\ c.ed = "tail" => c.dom = "xstar"
   /\ c.g = "na" <=> ~HasEntries(c.grp)

-----------------------------------------------------------------------------
(* Documented semantics - the property *)

AddrSat(c) == c.addr # "none" /\ ~c.empty /\ (c.addr = "star" \/ c.ea \in {"exact", "case"})
DomSat(c)  == c.dom # "none"  /\ ~c.empty /\ (c.dom = "star"  \/ c.ed \in {"exact", "case"})
GrpSat(c)  == c.grp # "none"  /\ ~c.empty /\ (c.grp = "star"  \/ c.g = "member")

Admit(c) == ~c.empty /\ (AddrSat(c) \/ DomSat(c) \/ GrpSat(c))

\* summary of a cell in the vocabulary of the recorded finding D3
EmailRuleFails(c)  == (c.addr # "none" /\ ~AddrSat(c)) \/ (c.dom # "none" /\ ~DomSat(c))
EmailRulePasses(c) == AddrSat(c) \/ DomSat(c)
GroupRuleFails(c)  == c.grp # "none" /\ ~GrpSat(c)
Sig(c) == [emailRuleFails |-> EmailRuleFails(c), emailRulePasses |-> EmailRulePasses(c),
           groupRuleFails |-> GroupRuleFails(c), groupRulePasses |-> GrpSat(c)]

-----------------------------------------------------------------------------
(* Mechanism *)

\* EmailAddressValidator.Validate
VAddr(c) == ~c.empty /\ (c.addr = "star" \/ c.ea \in {"exact", "case"})
\* EmailDomainValidator.Validate: "@"+lower(entry) suffix of lower(email); a "*" entry stays "*"
VDom(c)  == ~c.empty /\ (c.dom = "star" \/ c.ed \in {"exact", "case"} \/ (StarEntryIsSuffix /\ c.ed = "tail"))
\* EmailGroupValidator.Validate -> SSOProvider.ValidateGroup (lone "*": no question asked)
VGrp(c)  == c.grp = "star" \/ c.g = "member"

Configured(c) == {"addr" : x \in {1} \ (IF c.addr = "none" THEN {1} ELSE {})} \cup
                 {"dom"  : x \in {1} \ (IF c.dom = "none" THEN {1} ELSE {})} \cup
                 {"grp"  : x \in {1} \ (IF c.grp = "none" THEN {1} ELSE {})}
Passes(c, v) == CASE v = "addr" -> VAddr(c) [] v = "dom" -> VDom(c) [] v = "grp" -> VGrp(c)

\* OAuthCallback: redeemCode refuses an empty e-mail; denied when every validator failed
\* (an upstream without any rule is refused by SetUpstreamConfigs: nobody gets anywhere)
LoginMech(c) == ~c.empty /\ \E v \in Configured(c) : Passes(c, v)

EmailLoop(c) == \A v \in Configured(c) \ {"grp"} : Passes(c, v)

\* Authenticate with nothing due: the session cookie exists (the login admitted) ...
RequestMech(c) ==
   /\ LoginMech(c)
   /\ IF PerRequestAllOf THEN EmailLoop(c) ELSE \E v \in Configured(c) : Passes(c, v)

\* ... with the validation period expired: ValidateSessionState(session, allowedGroups) first
RevalidationMech(c) ==
   /\ LoginMech(c)
   /\ IF RevalidationNeedsGroup THEN (c.grp = "none" \/ VGrp(c)) ELSE TRUE
   /\ IF PerRequestAllOf THEN EmailLoop(c) ELSE \E v \in Configured(c) : Passes(c, v)

Mech(c) == [login |-> LoginMech(c), request |-> RequestMech(c), reval |-> RevalidationMech(c)]

-----------------------------------------------------------------------------
(* Property rules on an outcome o = [login, request, reval] (admitted?)    *)
(*   login    a session cookie was set by the callback                     *)
(*   request  the upstream was reached by the next request                 *)
(*   reval    the upstream was reached by a request with revalidation due  *)

R_C11_LoginVerdict(c, o)        == o.login = Admit(c)
R_C11_RequestVerdict(c, o)      == o.request = Admit(c)
R_C11_RevalidationVerdict(c, o) == o.reval = Admit(c)

Rules(c, o) ==
   [ C11_LoginVerdict        |-> R_C11_LoginVerdict(c, o),
     C11_RequestVerdict      |-> R_C11_RequestVerdict(c, o),
     C11_RevalidationVerdict |-> R_C11_RevalidationVerdict(c, o) ]
Violated(c, o) == LET rs == Rules(c, o) IN { n \in DOMAIN rs : ~rs[n] }

-----------------------------------------------------------------------------
(* The model: one browser history per cell - login, a later request, a      *)
(* request after the validation period - with the facts unchanged.          *)

VARIABLES cell, phase, out
vars == <<cell, phase, out>>

NoOut == [login |-> FALSE, request |-> FALSE, reval |-> FALSE]

Init == /\ cell \in { c \in Cells : ValidCell(c) }
        /\ phase = "start" /\ out = NoOut

LoginCallback ==
   /\ phase = "start"
   /\ out' = [out EXCEPT !.login = LoginMech(cell)]
   /\ phase' = "loggedin" /\ UNCHANGED cell

LaterRequest ==
   /\ phase = "loggedin"
   /\ out' = [out EXCEPT !.request = RequestMech(cell)]
   /\ phase' = "requested" /\ UNCHANGED cell

RevalidationRequest ==
   /\ phase = "requested"
   /\ out' = [out EXCEPT !.reval = RevalidationMech(cell)]
   /\ phase' = "done" /\ UNCHANGED cell

Next == LoginCallback \/ LaterRequest \/ RevalidationRequest
Spec == Init /\ [][Next]_vars

-----------------------------------------------------------------------------
(* Checked by TLC *)

TypeOK == ValidCell(cell) /\ phase \in {"start", "loggedin", "requested", "done"}

\* the verdict is Admit at every phase (phase-independence follows)
VerdictIsAdmit ==
   /\ phase \in {"loggedin", "requested", "done"} => out.login = Admit(cell)
   /\ phase \in {"requested", "done"} => out.request = Admit(cell)
   /\ phase = "done" => out.reval = Admit(cell)
PhaseIndependent == phase = "done" => (out.login = out.request /\ out.request = out.reval)
\* nobody is admitted with an empty e-mail or by an upstream without rules
EmptyAdmitsNobody ==
   (cell.empty \/ (cell.addr = "none" /\ cell.dom = "none" /\ cell.grp = "none"))
      => (~out.login /\ ~out.request /\ ~out.reval)
\* a later phase never admits whom the login refused (true of the implementation as well)
NoLaterAdmitWithoutLogin == phase = "done" => ((out.request \/ out.reval) => out.login)

\* --- the implementation's departures, exactly (checked with the three constants TRUE) ---
Dev(c) == { n \in {"C11_LoginVerdict", "C11_RequestVerdict", "C11_RevalidationVerdict"} :
              CASE n = "C11_LoginVerdict"        -> LoginMech(c) # Admit(c)
                [] n = "C11_RequestVerdict"      -> RequestMech(c) # Admit(c)
                [] n = "C11_RevalidationVerdict" -> RevalidationMech(c) # Admit(c) }
\* D3 first signature: some configured e-mail rule fails while another rule passes
D3a(c) == Admit(c) /\ EmailRuleFails(c)
\* D3 second signature: groups configured, user outside them, an e-mail rule passes (none fails), revalidation due
D3b(c) == Admit(c) /\ ~EmailRuleFails(c) /\ GroupRuleFails(c)
\* every departure is the refusal of a user the documented semantics admits, in exactly the cells of D3 ...
DeviationsAreTheKnownOnes ==
   LET c == cell IN c.ed # "tail" =>
   /\ LoginMech(c) = Admit(c)
   /\ (RequestMech(c) # Admit(c)) <=> D3a(c)
   /\ (RevalidationMech(c) # Admit(c)) <=> (D3a(c) \/ D3b(c))
   /\ Dev(c) # {} => Admit(c)
\* ... and, apart from D3, the "*"-entry-as-suffix departure: such an address always gets its session
StarTailDeparture ==
   LET c == cell IN c.ed = "tail" =>
   /\ LoginMech(c)
   /\ ("C11_LoginVerdict" \in Dev(c)) <=> ~Admit(c)

\* every step of the mechanism satisfies the rules (as documented only)
StepRulesHold == phase' = "done" => Violated(cell, out') = {}
StepOK == [][StepRulesHold]_vars

=============================================================================
