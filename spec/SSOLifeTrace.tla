---------------------------- MODULE SSOLifeTrace ----------------------------
(***************************************************************************)
(* Leg V for SSOLife: behaviours replayed through the real chain           *)
(* (sso-proxy -> sso-auth with the Okta provider behind its group cache -> *)
(* a stateful fake identity provider), one JSON object per line, written   *)
(* by harness/life:                                                        *)
(*   reset    a new browser history: the upstream's policy                 *)
(*   login    the whole real login; ok = a session was obtained (ck)       *)
(*   advance  the browser's cookie was time-shifted by d units             *)
(*   env      something changed AT THE IDENTITY PROVIDER (revoke, member,  *)
(*            avail); expire = the authenticator's cache entry was purged  *)
(*   request  one request: cookie before (c), what the REAL authenticator  *)
(*            answered on the back-channel (ans, by a recording middleware) *)
(*            the provider's state (idp), the authenticator's cache entry  *)
(*            before (gc), and the outcome (out)                           *)
(* Judged on every request: ProxySession's rules on the real answers, the  *)
(* end-to-end rules of SSOLife on the provider's state; compared as drift: *)
(* the authenticator's answers against ChainAns, the outcome against the   *)
(* proxy's ladder on those answers, the cache against CacheAfter.          *)
(***************************************************************************)
EXTENDS SSOLife, Json, IOUtils

Trace == ndJsonDeserialize(IOEnv.VERIF_TRACE)

VARIABLE l
tvars == <<ck, pol, gh, last, idp, gcache, lg, l>>

SeqToSet(s) == { s[i] : i \in DOMAIN s }
Obs(o) == [reached |-> o.reached, status |-> o.status, after |-> o.after, calls |-> SeqToSet(o.calls), res |-> "obs"]

Report(vs, dr) ==
   /\ IF vs = {} THEN TRUE ELSE PrintT(<<"VIOL", l, vs>>)
   /\ IF dr = {} THEN TRUE ELSE PrintT(<<"DRIFT", l, dr>>)

I0 == [fam |-> "live", avail |-> "up", member |-> "yes"]
L0 == [sinceRevoke |-> NoTime, sinceOut |-> NoTime]

TInit == /\ ck = NoCookie /\ pol = [email |-> TRUE, group |-> FALSE] /\ gh = NoGhosts /\ last = NoStep
         /\ idp = I0 /\ gcache = "empty" /\ lg = L0 /\ l = 1
         /\ TLCSet(1, 1)

Ev(e) == l <= Len(Trace) /\ Trace[l].ev = e

TReset ==
   /\ Ev("reset")
   /\ ck' = NoCookie /\ pol' = Trace[l].pol /\ gh' = NoGhosts /\ last' = [ev |-> "reset"]
   /\ idp' = I0 /\ gcache' = "empty" /\ lg' = L0
   /\ l' = l + 1

\* login: a new token family; whether a session results, and what the cookie starts with
LoginViolated(r, okg) ==
   { n \in {"C01_E2E_LoginNeedsARule", "C04_LoginLifetime", "C04_LoginValid", "C04_LoginRefresh", "C05_LoginNoGrace"} :
       r.ok /\ CASE n = "C01_E2E_LoginNeedsARule" -> ~okg   \* a session although no allow rule of this upstream holds
                 [] n = "C04_LoginLifetime" -> r.ck.life # LifeTTL
                 [] n = "C04_LoginValid" -> r.ck.val > ValidTTL
                 [] n = "C04_LoginRefresh" -> r.ck.ref > TokTTL
                 [] n = "C05_LoginNoGrace" -> r.ck.grace # NoGrace }
TLogin ==
   /\ Ev("login")
   /\ LET r == Trace[l]
          i2 == [idp EXCEPT !.fam = "live"]
          prof == IF pol.group THEN ChainProfile(i2, gcache) ELSE "na"
          okg == pol.email \/ prof = "member"
          gc2 == IF pol.group THEN CacheAfter(i2, gcache, {"profile"}) ELSE gcache
      IN /\ Report(LoginViolated(r, okg),
                   (IF r.ok # okg THEN {"login"} ELSE {}) \cup (IF r.gc # gc2 THEN {"cache"} ELSE {}))
         /\ idp' = i2
         /\ gcache' = r.gc
         /\ ck' = IF r.ok THEN r.ck ELSE NoCookie
         /\ gh' = IF r.ok THEN FreshGhosts ELSE NoGhosts
         /\ lg' = ReGhost(lg, i2, r.gc, pol)
         /\ last' = [ev |-> "login"]
   /\ UNCHANGED pol
   /\ l' = l + 1

TAdvance ==
   /\ Ev("advance")
   /\ LET d == Trace[l].d IN
        /\ ck' = AdvanceCookie(ck, d) /\ gh' = AdvanceGhosts(gh, d)
        /\ lg' = [sinceRevoke |-> Tick(lg.sinceRevoke, d), sinceOut |-> Tick(lg.sinceOut, d)]
   /\ last' = [ev |-> "advance"]
   /\ UNCHANGED <<pol, idp, gcache>>
   /\ l' = l + 1

TEnv ==
   /\ Ev("env")
   /\ LET r == Trace[l]
          i2 == CASE r.what = "revoke" -> [idp EXCEPT !.fam = "revoked"]
                  [] r.what = "member" -> [idp EXCEPT !.member = r.to]
                  [] r.what = "avail"  -> [idp EXCEPT !.avail = r.to]
      IN idp' = i2 /\ lg' = ReGhost(lg, i2, gcache, pol)
   /\ last' = [ev |-> "env"]
   /\ UNCHANGED <<ck, pol, gh, gcache>>
   /\ l' = l + 1

TExpire ==
   /\ Ev("expire")
   /\ gcache' = "empty" /\ lg' = ReGhost(lg, idp, "empty", pol)
   /\ last' = [ev |-> "expire"]
   /\ UNCHANGED <<ck, pol, gh, idp>>
   /\ l' = l + 1

\* the authenticator's answers, endpoint by endpoint, against the model of its back-channel
ChainDrift(r, calls) ==
   LET m == ChainAns(r.idp, r.gc) IN
   { e \in {"chain_refresh", "chain_validate", "chain_profile"} :
       CASE e = "chain_refresh"  -> "refresh" \in calls /\ (r.ans.refresh # m.refresh \/ (m.refresh = "ok" /\ r.ans.rexp # m.rexp))
         [] e = "chain_validate" -> "validate" \in calls /\ r.ans.validate # m.validate
         [] e = "chain_profile"  -> "profile" \in calls /\ r.ans.profile # m.profile }

OutcomeDrift(pred, o) ==
   { f \in {"reached", "status", "after", "calls"} :
       CASE f = "reached" -> pred.reached # o.reached
         [] f = "status" -> pred.status # o.status
         [] f = "after" -> pred.after # o.after
         [] f = "calls" -> pred.calls # o.calls }

TRequest ==
   /\ Ev("request")
   /\ LET r == Trace[l]
          o == Obs(r.out)
          gc2 == CacheAfter(r.idp, r.gc, o.calls)
      IN /\ Report(Violated(gh, ck, pol, r.req, r.ans, o)
                     \cup LifeViolated(ck, gh, lg, pol, r.idp, r.gc, r.req, o)
                     \cup (IF r.c # ck THEN {"HARNESS_CookieProjection"} ELSE {})
                     \cup (IF r.idp # idp THEN {"HARNESS_IdpState"} ELSE {}),
                   ChainDrift(r, o.calls) \cup OutcomeDrift(Respond(ck, pol, r.req, r.ans), o)
                     \cup (IF r.gc # gcache THEN {"cache"} ELSE {}))
         /\ ck' = o.after /\ gh' = StepGhosts(gh, ck, pol, r.req, r.ans, o)
         /\ gcache' = gc2
         /\ lg' = ReGhost(lg, idp, gc2, pol)
         /\ last' = [ev |-> "request"]
   /\ UNCHANGED <<pol, idp>>
   /\ l' = l + 1

TNext == TReset \/ TLogin \/ TAdvance \/ TEnv \/ TExpire \/ TRequest
TSpec == TInit /\ [][TNext]_tvars

Track == IF l > TLCGet(1) THEN TLCSet(1, l) ELSE TRUE
Accepted == TLCGet(1) = Len(Trace) + 1
=============================================================================
