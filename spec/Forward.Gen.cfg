\* Leg G, all cells (predictions of the pipeline as documented), with the rules checked on every predicted outcome
SPECIFICATION GSpec
CONSTANTS
  Order = "code"
  D1Fixed = TRUE
  HopSafe = TRUE
  CLNormalised = TRUE
  BigBodies = TRUE
  Families = {"id", "sig", "hop", "inj"}
INVARIANTS RulesHoldG
ACTION_CONSTRAINT Emit
CHECK_DEADLOCK FALSE
