---------------------------- MODULE ProxyDispatch ----------------------------
(***************************************************************************)
(* Request dispatch of sso-proxy (beyond the listed properties; bin/check  *)
(* X03): which layer answers a request, for every combination of Host,     *)
(* session, reserved path, spelling of that path, and method.              *)
(*                                                                         *)
(* Mechanism (one definition per layer, named after the code):             *)
(*   HealthCheck   proxy.setHealthCheck: URL.Path = "/ping" is answered    *)
(*                 200 before host routing (Host, method, session and the  *)
(*                 upstream's own /ping do not matter; URL.Path is the     *)
(*                 decoded path, so "/%70ing" is the health check too)     *)
(*   HostRoute     hostmux.Router: a Host no upstream names gets 421       *)
(*   Clean         net/http ServeMux: a path that path.Clean changes is    *)
(*                 answered 301                                            *)
(*   Reserved      OAuthProxy's mux matches the path AS SPELLED on the     *)
(*                 wire: /robots.txt, /favicon.ico, /oauth2/v1/certs,      *)
(*                 /oauth2/sign_out, /oauth2/callback, /oauth2/auth; a     *)
(*                 percent-encoded letter, a trailing slash, another case  *)
(*                 or a longer name is an ordinary upstream path (the      *)
(*                 first run of the check showed the encoded spelling      *)
(*                 going to the upstream, not to the reserved handler)     *)
(*   Favicon       404 without a session, the upstream's with one          *)
(*   Proxy         everything else: skip-auth pattern | session | sign-in  *)
(*                                                                         *)
(* Rules X03_xxx: a reserved path never reaches the upstream (the favicon  *)
(* of an authenticated user excepted), whatever the session or the skip-   *)
(* auth patterns; look-alikes of reserved paths are ordinary upstream      *)
(* paths (forwarded byte for byte, or sent to sign-in, never treated as    *)
(* the reserved handler); a Host nobody configured gets nothing; nothing   *)
(* reaches an upstream without a session or a skip-auth pattern.           *)
(***************************************************************************)
EXTENDS Integers, Sequences, FiniteSets, TLC

Hosts   == {"closed", "open", "other"}
Ress    == {"ping", "robots", "favicon", "certs", "sign_out", "callback", "auth", "plain"}
Spells  == {"exact", "slash", "upper", "suffix", "dbl", "dot", "encoded"}
Methods == {"GET", "POST", "HEAD", "PUT", "DELETE"}

IsCell(c) ==
   /\ c.host \in Hosts /\ c.session \in BOOLEAN /\ c.res \in Ress /\ c.spell \in Spells /\ c.method \in Methods
   /\ (c.res = "plain" => c.spell = "exact")
   /\ (c.res \in {"ping", "robots", "favicon"} => c.spell \notin {"dbl", "dot"})    \* one segment: nothing to dirty inside

Cells == { c \in [host : Hosts, session : BOOLEAN, res : Ress, spell : Spells, method : Methods] : IsCell(c) }

\* the health check compares the decoded path, the mux the spelled one
HealthPath(c) == c.res = "ping" /\ c.spell \in {"exact", "encoded"}
SamePath(c) == c.spell = "exact"

Layer(c) ==
   IF HealthPath(c) THEN "health"
   ELSE IF c.host = "other" THEN "misdirected"
   ELSE IF c.spell \in {"dbl", "dot"} THEN "cleaned"
   ELSE IF c.res # "plain" /\ SamePath(c) THEN c.res
   ELSE "proxy"

\* does the request reach the upstream?
Forwarded(c) ==
   CASE Layer(c) = "proxy"   -> c.host = "open" \/ c.session
     [] Layer(c) = "favicon" -> c.session
     [] OTHER -> FALSE

StatusOf(c) ==
   LET ly == Layer(c) IN
   CASE ly = "health" -> {200}
     [] ly = "misdirected" -> {421}
     [] ly = "cleaned" -> {301}
     [] ly = "robots" -> {200}
     [] ly = "certs" -> {200}
     [] ly = "favicon" -> IF c.session THEN {200} ELSE {404}
     [] ly = "auth" -> IF c.session THEN {202} ELSE {401}
     [] ly = "sign_out" -> {302}
     [] ly = "callback" -> {400, 403, 500}
     [] ly = "proxy" -> IF Forwarded(c) THEN {200} ELSE {302}

Respond(c) == [layer |-> Layer(c)]

-----------------------------------------------------------------------------
(* Rules, on an observed outcome o = [status, reached, same, authn, cookie] *)

ReservedExact(c) == c.res \notin {"plain"} /\ SamePath(c) /\ c.spell = "exact"
Lookalike(c) == c.res \notin {"plain", "ping"} /\ c.spell \in {"slash", "upper", "suffix", "encoded"}

Violated(c, o) ==
   { r \in {"X03_HealthIndependent", "X03_ReservedNeverForwarded", "X03_LookalikeIsUpstreamPath", "X03_ForeignHostGetsNothing",
            "X03_NoForwardWithoutSessionOrSkip", "X03_ForwardedUnchanged", "X03_AuthOnlySaysWhoIsIn", "X03_AuthOnly202OnlyForSession"} :
       CASE r = "X03_HealthIndependent"      -> c.res = "ping" /\ c.spell = "exact" /\ (o.status # 200 \/ o.reached)
         [] r = "X03_ReservedNeverForwarded" -> ReservedExact(c) /\ o.reached /\ ~(c.res = "favicon" /\ c.session /\ c.host # "other")
         [] r = "X03_LookalikeIsUpstreamPath" ->
                 /\ Lookalike(c) /\ c.host # "other"
                 /\ IF c.host = "open" \/ c.session THEN ~o.reached ELSE o.status # 302
         [] r = "X03_ForeignHostGetsNothing" -> c.host = "other" /\ ~HealthPath(c) /\ (o.status # 421 \/ o.reached \/ o.cookie)
         [] r = "X03_NoForwardWithoutSessionOrSkip" -> o.reached /\ ~(c.session \/ c.host = "open")
         [] r = "X03_ForwardedUnchanged"     -> o.reached /\ ~o.same
         [] r = "X03_AuthOnly202OnlyForSession" -> c.res = "auth" /\ o.status = 202 /\ ~c.session
         [] r = "X03_AuthOnlySaysWhoIsIn"    -> c.res = "auth" /\ c.spell = "exact" /\ c.host # "other" /\ (o.status = 202) # c.session }

Drift(c, o) == (IF o.status \in StatusOf(c) THEN {} ELSE {"status"}) \cup (IF o.reached = Forwarded(c) THEN {} ELSE {"reached"})

-----------------------------------------------------------------------------
VARIABLES cell, out, done
vars == <<cell, out, done>>

NoOut == [layer |-> "none"]
Init == cell \in Cells /\ out = NoOut /\ done = FALSE
Step == ~done /\ out' = Respond(cell) /\ done' = TRUE /\ UNCHANGED cell
Spec == Init /\ [][Step]_vars

\* Leg M: the mechanism itself keeps the rules, for every status it allows
MechOK ==
   done => \A s \in StatusOf(cell) :
              Violated(cell, [status |-> s, reached |-> Forwarded(cell), same |-> TRUE, authn |-> 0, cookie |-> FALSE]) = {}
=============================================================================
