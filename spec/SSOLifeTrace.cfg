SPECIFICATION TSpec
CONSTANTS
  ValidTTL = 1
  GraceTTL = 2
  LifeTTL = 6
  Expiries = {1, 3}
  TokTTL = 3
  LenientValidate = FALSE
  Forge = FALSE
CONSTRAINT Track
POSTCONDITION Accepted
CHECK_DEADLOCK FALSE
