\* as implemented (D9): TLC is EXPECTED to report RulesHold violated (signed Content-Length differs from the one on the wire)
SPECIFICATION Spec
CONSTANTS
  Order = "code"
  D1Fixed = TRUE
  HopSafe = TRUE
  CLNormalised = FALSE
  BigBodies = FALSE
  Families = {"mini"}
INVARIANTS RulesHold
CHECK_DEADLOCK FALSE
