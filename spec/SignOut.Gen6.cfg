SPECIFICATION GenSpec
CONSTANTS MaxSteps = 6
ACTION_CONSTRAINT Emit
VIEW View
CHECK_DEADLOCK FALSE
