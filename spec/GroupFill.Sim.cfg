SPECIFICATION GenSpec
CONSTANTS
  Users = {"u1", "u2"}
  Groups = {"g1", "g2"}
  Callers = {"t1"}
  MemberSets = {{}, {"u1"}}
  Coarse = TRUE
  SimLen = 30
ACTION_CONSTRAINT EmitSim

CHECK_DEADLOCK FALSE
