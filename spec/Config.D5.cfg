\* the mechanism as found (D5: cluster options replace the default block's options wholesale) must violate the rules
SPECIFICATION Spec
CONSTANTS
  ClusterOptionsWholesale = TRUE
  Families = {"misc"}
INVARIANTS RulesHold
CHECK_DEADLOCK FALSE
