SPECIFICATION TSpec
CONSTANTS
  Reqs <- MCReqs
  Kind <- MCKind
  TimeoutMs = 700
  SlackMs = 150
CONSTRAINT Track
POSTCONDITION Accepted
CHECK_DEADLOCK FALSE
