\* Leg M of the composed chain: every interleaving of login / time / requests with every IdP event
SPECIFICATION LSpec
CONSTANTS
  ValidTTL = 1
  GraceTTL = 2
  LifeTTL = 5
  Expiries = {1, 3}
  TokTTL = 3
  LenientValidate = FALSE
  Forge = FALSE
INVARIANTS LTypeOK TypeOK RevokedSessionIsYoung
PROPERTIES LStepOK
VIEW LView
CHECK_DEADLOCK FALSE
