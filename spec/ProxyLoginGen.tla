--------------------------- MODULE ProxyLoginGen ---------------------------
EXTENDS ProxyLogin, Json
Emit == IF out' # None THEN PrintT(<<"CELL", ToJson([cell |-> cell, pred |-> out'])>>) ELSE TRUE
=============================================================================
