\* Leg M (thorough): the pipeline as documented (fixes/D1.diff applied, Content-Length covered as sent on the wire)
\* satisfies every rule on every cell of both families
SPECIFICATION Spec
CONSTANTS
  Order = "code"
  D1Fixed = TRUE
  HopSafe = TRUE
  CLNormalised = TRUE
  BigBodies = TRUE
  Families = {"id", "sig", "hop", "inj"}
INVARIANTS TypeOK RulesHold ComposedAgrees SignedIsReceived BodyIntact SignedAfterStrip SignedAfterIdentity
CHECK_DEADLOCK FALSE
