------------------------------- MODULE SSOGen -------------------------------
(* Leg G: behaviours of the composed system as event lists (BFS emission for  *)
(* small bounds, or random walks with -simulate).                             *)
EXTENDS SSO, Json
VARIABLE hist
CONSTANT SimLen
Ev == [op |-> last'.op, b |-> last'.b, url |-> IF last'.op = "lure" THEN last'.url ELSE NoUrl]
GenNext == Next /\ hist' = Append(hist, Ev)
GenSpec == Init /\ hist = <<>> /\ [][GenNext]_<<vars, hist>>
Emit == IF SimLen = 0 \/ Len(hist') = SimLen THEN PrintT(<<"BEH", ToJson(hist')>>) ELSE TRUE
=============================================================================
