SPECIFICATION TSpec
CONSTANTS
  MaxFlows = 1000000
  MaxNonces = 1000000
  CheckProxyCSRF = TRUE
  CheckAuthNonce = TRUE
CONSTRAINT Track
POSTCONDITION Accepted
CHECK_DEADLOCK FALSE
