SPECIFICATION Spec
CONSTANTS
  LenientBase64 = FALSE
ACTION_CONSTRAINT Emit
CHECK_DEADLOCK FALSE
