---------------------------- MODULE SealedTrace ----------------------------
(***************************************************************************)
(* Leg V for Sealed: every line is one string presented to the real        *)
(* aead.MiscreantCipher / sessions.UnmarshalSession / CookieStore          *)
(* .LoadSession:                                                           *)
(*   c    the abstract cell (kind, via, keysize, shape, mut)               *)
(*   s    the symbolic string as the driver's independent reader classed   *)
(*        the concrete string against the genuine one it was derived from  *)
(*   out  what the real code returned (err, data, twin, leak)              *)
(* The rules of Sealed.tla are evaluated on (s, out); the mechanism's      *)
(* prediction is compared as drift only.                                   *)
(***************************************************************************)
EXTENDS Sealed, Json, IOUtils

Trace == ndJsonDeserialize(IOEnv.VERIF_TRACE)

VARIABLE l
tvars == <<cell, out, l>>

Obs(o) == [err |-> o.err, data |-> o.data, twin |-> o.twin, leak |-> o.leak]

Harness(r) ==
   (IF r.s # Apply(r.c.mut) THEN {"HARNESS_Classification"} ELSE {}) \cup
   (IF r.out.data \notin {"none", "equal", "different"} \/ r.out.twin \notin {"differs", "same", "na"}
    THEN {"HARNESS_Outcome"} ELSE {})

Drift(pred, o) ==
   { f \in {"err", "data"} :
       CASE f = "err" -> pred.err # o.err
         [] f = "data" -> pred.data # o.data }

Report(vs, dr) ==
   /\ \A n \in vs : PrintT(<<"VIOL", l, {n}>>)   \* one rule per line: TLC wraps long values
   /\ IF dr = {} THEN TRUE ELSE PrintT(<<"DRIFT", l, dr>>)

TInit == /\ cell = [kind |-> "session", via |-> "aead", keysize |-> 32, shape |-> "plain", mut |-> "none"]
         /\ out = NoOut /\ l = 1 /\ TLCSet(1, 1)

TStep ==
   /\ l <= Len(Trace)
   /\ LET r == Trace[l]
          o == Obs(r.out)
      IN /\ Report(Violated(r.s, o) \cup Harness(r), Drift(Open(r.s), o))
         /\ cell' = r.c /\ out' = o
   /\ l' = l + 1

TSpec == TInit /\ [][TStep]_tvars

Track == IF l > TLCGet(1) THEN TLCSet(1, l) ELSE TRUE
Accepted == TLCGet(1) = Len(Trace) + 1
=============================================================================
