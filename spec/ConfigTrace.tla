---------------------------- MODULE ConfigTrace ----------------------------
(***************************************************************************)
(* Leg V for Config: every outcome recorded from the real configuration    *)
(* loader (harness/cf) is judged by the C14 rules of Config.tla.           *)
(*                                                                         *)
(* One JSON object per line, one line per (document, service, path):       *)
(*   s     the abstract service (blocks, stated settings)                  *)
(*   env   the deployment defaults that were configured                    *)
(*   path  "hook" (loadServiceConfigs alone) | "prod" (SetUpstreamConfigs  *)
(*         and proxy.New as cmd/sso-proxy runs them)                       *)
(*   tpl   values were written with template variables                     *)
(*   out   err, or the upstreams carrying this service's name, each        *)
(*         setting projected to the source whose value it carries          *)
(***************************************************************************)
EXTENDS Config, Json, IOUtils

Trace == ndJsonDeserialize(IOEnv.VERIF_TRACE)

VARIABLE l
tvars == <<doc, out, l>>

B(b) == [b EXCEPT !.st = SeqSet(b.st)]
S(s) == [s EXCEPT !.def = B(s.def), !.clu = B(s.clu), !.xtr = B(s.xtr)]

\* differences between the mechanism's prediction and the observation (never an alarm)
Drift(pred, o) ==
   { n \in {"err", "count", "settings"} :
       CASE n = "err" -> pred.err # o.err
         [] n = "count" -> ~pred.err /\ ~o.err /\ Len(pred.ups) # Len(o.ups)
         [] n = "settings" -> ~pred.err /\ ~o.err /\ Len(pred.ups) = Len(o.ups) /\ pred.ups # o.ups }

Report(vs, dr) ==
   /\ \A v \in vs : PrintT(<<"VIOL", l, {v}>>)     \* one short tuple per rule: TLC wraps long tuples over several lines
   /\ IF dr = {} THEN TRUE ELSE PrintT(<<"DRIFT", l, dr>>)

Shape(r) ==
   { n \in {"HARNESS_Path", "HARNESS_Env"} :
       CASE n = "HARNESS_Path" -> r.path \notin Paths
         [] n = "HARNESS_Env" -> ~(SeqSet(r.env) \subseteq EnvF) \/ (r.path = "prod" /\ ~({"tmo", "slug"} \subseteq SeqSet(r.env))) }

TInit == /\ doc = [s |-> Svc("ok", NoBlock, NoBlock, FALSE, "none", NoBlock), env |-> {}]
         /\ out = Pending /\ l = 1 /\ TLCSet(1, 1)

TSvc ==
   /\ l <= Len(Trace)
   /\ LET r == Trace[l]
          s == S(r.s)
          e == SeqSet(r.env)
      IN /\ Report(Violated(s, e, r.path, r.tpl, r.out) \cup Shape(r), Drift(Respond(s, e, r.path), r.out))
         /\ doc' = [s |-> s, env |-> e]
         /\ out' = r.out
   /\ l' = l + 1

TNext == TSvc
TSpec == TInit /\ [][TNext]_tvars

Track == IF l > TLCGet(1) THEN TLCSet(1, l) ELSE TRUE
Accepted == TLCGet(1) = Len(Trace) + 1
=============================================================================
