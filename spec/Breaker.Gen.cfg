SPECIFICATION GenSpec
CONSTANTS
  Calls = {1, 2, 3}
  TripN = 3
  ResetN = 2
  Cap = 2
  MaxCount = 3
  MaxBackoff = 3
  SimLen = 0
ACTION_CONSTRAINT Emit
VIEW View
CHECK_DEADLOCK FALSE
