"""Shared machinery of bin/check: scratch handling, harness build, TLC legs
(M model check, G generate, V validate), evidence files, known findings."""
import json, os, re, shutil, subprocess, sys, tempfile, time

VERIF = os.path.dirname(os.path.dirname(os.path.abspath(__file__)))
OUT = os.environ.get("VERIF_OUT", VERIF)  # evidence/ and replays/ go here (selftest redirects them)
SPEC = os.path.join(VERIF, "spec")
HARNESS = os.path.join(VERIF, "harness")
GOENV = {"GOFLAGS": "-mod=mod", "GOPROXY": "off", "GOSUMDB": "off", "GOTOOLCHAIN": "local"}
NCPU = os.cpu_count() or 4


class Machinery(Exception):
    """The check could not run (exit 2): never reported as a violation."""


class Ctx:
    def __init__(self, pid, tier, seed):
        self.id = pid
        self.tier = tier
        self.seed = seed
        self.repo = os.environ.get("VERIF_REPO", "/repo")
        self.t0 = time.time()
        self.scratch = tempfile.mkdtemp(prefix="verif-%s-" % pid)
        self.harness = None
        self.violations = []   # dicts: rule, sig, replay, detail
        self.known = []
        self.drift = 0
        self.cov = {"states": 0, "transitions": 0, "traces_validated_against_impl": 0, "samples": [],
                    "evaluations": 0, "distinct_nontrivial": 0, "legs": {}}
        self.assumptions = []
        self.level = "model_checking"
        self.log = []

    def say(self, *a):
        msg = " ".join(str(x) for x in a)
        self.log.append(msg)
        print("[%s %5.1fs] %s" % (self.id, time.time() - self.t0, msg), flush=True)

    def cleanup(self):
        if not os.environ.get('VERIF_KEEP'):
            shutil.rmtree(self.scratch, ignore_errors=True)


def run(cmd, env=None, timeout=None, cwd=None, stdin=None):
    e = dict(os.environ)
    if env:
        e.update(env)
    p = subprocess.run(cmd, env=e, cwd=cwd, stdout=subprocess.PIPE, stderr=subprocess.STDOUT, timeout=timeout,
                       input=stdin, universal_newlines=True)
    return p.returncode, p.stdout


def build_harness(ctx):
    """go build the harness against ctx.repo's working tree with -tags verif."""
    mod = os.path.join(ctx.scratch, "go.mod")
    with open(mod, "w") as f:
        f.write("module github.com/buzzfeed/sso/verifharness\n\ngo 1.14\n\n"
                "require github.com/buzzfeed/sso v0.0.0\n\nreplace github.com/buzzfeed/sso => %s\n" % ctx.repo)
    shutil.copy(os.path.join(ctx.repo, "go.sum"), os.path.join(ctx.scratch, "go.sum"))
    out = os.path.join(ctx.scratch, "harness")
    env = dict(GOENV)
    env["GOCACHE"] = os.environ.get("GOCACHE", os.path.expanduser("~/.cache/go-build"))
    rc, txt = run(["go", "build", "-modfile", mod, "-tags", "verif", "-o", out, "./cmd/harness"], env=env, cwd=HARNESS, timeout=900)
    if rc != 0:
        raise Machinery("harness does not build against %s:\n%s" % (ctx.repo, txt[-3000:]))
    ctx.harness = out
    return out


def harness(ctx, args, timeout=None):
    if ctx.harness is None:
        build_harness(ctx)
    if timeout is None:
        # a driver that hangs is a machinery failure (exit 2), and should become one in minutes, not in an hour
        timeout = 900 if ctx.tier == "quick" else 3000
    try:
        p = _run_harness(ctx, args, timeout)
    except subprocess.TimeoutExpired:
        raise Machinery("harness %s did not finish within %d s" % (args[0], timeout))
    if os.environ.get("VERIF_DEBUG_STDERR") and p.returncode != 0:
        open(os.environ["VERIF_DEBUG_STDERR"], "w").write(p.stderr)
    return _harness_result(ctx, args, timeout, p)


def _run_harness(ctx, args, timeout):
    return subprocess.run([ctx.harness] + [str(a) for a in args], stdout=subprocess.PIPE, stderr=subprocess.PIPE,
                       timeout=timeout, universal_newlines=True, cwd=ctx.scratch)


def _harness_result(ctx, args, timeout, p):
    if p.returncode != 0:
        # Several fixtures share the driver's process. A Go runtime "fatal error" (concurrent map writes on state the
        # code under test shares between its instances) kills all of them at once: run the driver again with one
        # worker, where the same state is written by one fixture at a time and what it then does wrong can be observed.
        sargs = [str(a) for a in args]
        if "fatal error:" in p.stderr and "-workers" in sargs and sargs[sargs.index("-workers") + 1] != "1" and not getattr(ctx, "_retried_serial", False):
            ctx._retried_serial = True
            ctx.say("driver %s died with a Go runtime fatal error (%s); running it again with one worker" % (
                args[0], p.stderr[p.stderr.index("fatal error:"):][:80].splitlines()[0]))
            sargs[sargs.index("-workers") + 1] = "1"
            try:
                return harness(ctx, sargs, timeout=timeout * 4)
            finally:
                ctx._retried_serial = False
        # The environment sentinel (descriptor watermark, client time-outs) discarded the run: the load of all workers
        # together was too much for this moment - or the code under test is wasteful with connections. Either way a
        # gentler run can still observe what it does: once more with two workers.
        if "environment was degraded" in p.stderr and "-workers" in sargs and sargs[sargs.index("-workers") + 1] not in ("1", "2") \
                and not getattr(ctx, "_retried_gentle", False):
            ctx._retried_gentle = True
            ctx.say("driver %s: environment sentinel tripped; running it again with two workers" % args[0])
            sargs[sargs.index("-workers") + 1] = "2"
            try:
                return harness(ctx, sargs, timeout=timeout * 4)
            finally:
                ctx._retried_gentle = False
        raise Machinery("harness %s failed (%d): %s" % (args[0], p.returncode, p.stderr[-3000:]))
    try:
        return json.loads(p.stdout.strip().splitlines()[-1])
    except Exception:
        raise Machinery("harness %s: no summary: %s" % (args[0], p.stdout[-500:]))


_spec_copied = {}


def specdir(ctx):
    d = os.path.join(ctx.scratch, "spec")
    if not os.path.isdir(d):
        shutil.copytree(SPEC, d)
    return d


def tlc(ctx, module, cfg, workers=None, timeout=1800, env=None, extra=None, tag="tlc"):
    d = specdir(ctx)
    meta = tempfile.mkdtemp(prefix="meta-", dir=ctx.scratch)
    cmd = ["timeout", str(timeout), "tlc", "-workers", str(workers or min(NCPU, 8)), "-metadir", meta,
           "-config", cfg] + (extra or []) + [module + ".tla"]
    # TLC unpacks its standard modules into java.io.tmpdir on every run and leaves them there: keep that inside the scratch
    jtmp = os.path.join(ctx.scratch, "jtmp")
    os.makedirs(jtmp, exist_ok=True)
    e = {"JAVA_TOOL_OPTIONS": (os.environ.get("JAVA_TOOL_OPTIONS", "") + " -Djava.io.tmpdir=" + jtmp).strip()}
    if env:
        e.update(env)
    rc, out = run(cmd, env=e, cwd=d)
    shutil.rmtree(meta, ignore_errors=True)
    with open(os.path.join(ctx.scratch, "%s-%s.out" % (tag, cfg)), "w") as f:
        f.write(out)
    return rc, out


_STATS = re.compile(r"(\d+) states generated, (\d+) distinct states found, (\d+) states left on queue")


def stats(out):
    m = None
    for m in _STATS.finditer(out):
        pass
    if not m:
        return 0, 0
    return int(m.group(1)), int(m.group(2))


def leg_m(ctx, module, cfg, workers=None, timeout=1800, coverage_need=None):
    """Exhaustive model check. The model is expected to satisfy its properties:
    a TLC error here is a defect of the specification (machinery), not of sso."""
    t = time.time()
    rc, out = tlc(ctx, module, cfg, workers=workers, timeout=timeout, tag="M")
    gen, dist = stats(out)
    if "Model checking completed. No error has been found." not in out:
        raise Machinery("Leg M %s/%s: TLC did not complete cleanly (rc=%d):\n%s" % (module, cfg, rc, tail_err(out)))
    ctx.cov["states"] += dist
    ctx.cov["transitions"] += gen
    ctx.cov["legs"]["M:" + cfg] = {"distinct_states": dist, "transitions": gen, "wall_s": round(time.time() - t, 1)}
    ctx.say("Leg M %s: %d distinct states, %d transitions, no error" % (cfg, dist, gen))
    return gen, dist


def tail_err(out, n=12):
    """The part of a TLC output that explains a failure: error lines first, then the tail (long lines cut)."""
    lines = [l[:300] for l in out.splitlines() if not re.match(r"^(Parsing|Semantic|Linting)", l) and not l.startswith('<<"')]
    errs = [l for l in lines if re.search(r"(?i)error|exception|violated|out of memory|killed", l)][:15]
    return "\n".join(errs + ["..."] + lines[-n:])


def leg_g(ctx, module, cfg, tag, outfile, workers=4, timeout=1800):
    """Run the generation config; collect <<"TAG", "json">> lines into a jsonl file."""
    t = time.time()
    rc, out = tlc(ctx, module, cfg, workers=workers, timeout=timeout, tag="G")
    if "Model checking completed. No error has been found." not in out:
        raise Machinery("Leg G %s/%s: TLC failed (rc=%d):\n%s" % (module, cfg, rc, tail_err(out)))
    pre = '<<"%s", ' % tag
    n = 0
    path = os.path.join(ctx.scratch, outfile)
    with open(path, "w") as f:
        for line in out.splitlines():
            if line.startswith(pre) and line.endswith(">>"):
                f.write(json.loads(line[len(pre):-2]) + "\n")
                n += 1
    if n == 0:
        raise Machinery("Leg G %s/%s emitted nothing" % (module, cfg))
    gen, dist = stats(out)
    ctx.cov["legs"]["G:" + cfg] = {"emitted": n, "wall_s": round(time.time() - t, 1)}
    ctx.say("Leg G %s: %d cases emitted" % (cfg, n))
    return path, n


_VIOL = re.compile(r'<<\s*"VIOL",\s*(\d+),\s*\{(.*?)\}\s*>>', re.S)
_DRIFT = re.compile(r'<<\s*"DRIFT",\s*(\d+),\s*\{(.*?)\}\s*>>', re.S)


def leg_v(ctx, module, cfg, tracefile, strip=("conc", "marker", "stray", "panic"), timeout=1800, label="V"):
    """Validate a recorded ndjson trace with TLC. Returns (violations, drifts, nlines):
    violations = [(lineno, [rule...])]. A trace TLC cannot consume to the end is
    reported as a machinery failure unless the spec names a violation."""
    t = time.time()
    lean = tracefile + ".lean"
    n = 0
    with open(tracefile) as f, open(lean, "w") as o:
        for line in f:
            d = json.loads(line)
            for k in strip:
                d.pop(k, None)
            o.write(json.dumps(d) + "\n")
            n += 1
    if n == 0:
        raise Machinery("Leg V %s: empty trace %s" % (module, tracefile))
    rc, out = tlc(ctx, module, cfg, workers=1, timeout=timeout, env={"VERIF_TRACE": lean}, tag=label)
    # TLC pretty-prints a long PrintT value over several lines (and then with spaces inside << >>):
    # match over the whole output, whatever the layout
    viols = [(int(m.group(1)), re.findall(r'"([^"]+)"', m.group(2))) for m in _VIOL.finditer(out)]
    drifts = [(int(m.group(1)), re.findall(r'"([^"]+)"', m.group(2))) for m in _DRIFT.finditer(out)]
    if "Model checking completed. No error has been found." not in out:
        raise Machinery("Leg V %s/%s: trace not consumed to the end (rc=%d):\n%s" % (module, cfg, rc, tail_err(out)))
    # de-duplicate (TLC may evaluate an action twice)
    viols = sorted({(l, tuple(r)) for l, r in viols})
    drifts = sorted({(l, tuple(r)) for l, r in drifts})
    ctx.cov["traces_validated_against_impl"] += n
    ctx.cov["legs"][label + ":" + os.path.basename(tracefile)] = {"lines": n, "violating_lines": len(viols), "drift_lines": len(drifts),
                                                                "wall_s": round(time.time() - t, 1)}
    ctx.drift += len(drifts)
    ctx.say("Leg %s %s: %d lines validated, %d with rule violations, %d drift" % (label, os.path.basename(tracefile), n, len(viols), len(drifts)))
    return viols, drifts, n


_cache = {}


_EXPL = re.compile(r'<<\s*"EXPLAINED",\s*(\d+)\s*>>')


def leg_s(ctx, module, cfg, tracefile, final_ev="final", label="S", timeout=1800):
    """Validate free-running runs whose internal order TLC has to infer (two-lane trace spec: see
    BreakerStress.tla). Returns the 1-based line numbers of the `final` lines of runs for which NO
    order of the silent steps explains the log."""
    t = time.time()
    rc, out = tlc(ctx, module, cfg, workers=1, timeout=timeout, env={"VERIF_TRACE": tracefile}, tag=label)
    if "Model checking completed. No error has been found." not in out:
        raise Machinery("Leg %s %s/%s: TLC did not complete (rc=%d):\n%s" % (label, module, cfg, rc, tail_err(out)))
    explained = {int(m.group(1)) for m in _EXPL.finditer(out)}
    finals = []
    n = 0
    with open(tracefile) as f:
        for i, line in enumerate(f, 1):
            n += 1
            if '"ev":"%s"' % final_ev in line:
                finals.append(i)
    if not finals:
        raise Machinery("Leg %s: no run in %s" % (label, tracefile))
    bad = [i for i in finals if i not in explained]
    gen, dist = stats(out)
    ctx.cov["traces_validated_against_impl"] += n
    ctx.cov["legs"][label + ":" + os.path.basename(tracefile)] = {"lines": n, "runs": len(finals), "unexplained_runs": len(bad),
                                                                "search_states": dist, "wall_s": round(time.time() - t, 1)}
    ctx.say("Leg %s %s: %d runs (%d lines), %d unexplained; TLC searched %d states" % (label, os.path.basename(tracefile), len(finals), n, len(bad), dist))
    return bad


def read_line(path, lineno):
    """1-based line of an ndjson file, parsed (files are cached in memory)."""
    if path not in _cache:
        _cache.clear()
        _cache[path] = open(path).read().splitlines()
    ls = _cache[path]
    if 1 <= lineno <= len(ls):
        return json.loads(ls[lineno - 1])
    return None


# ---------------------------------------------------------------- findings

def load_known():
    p = os.path.join(VERIF, "known_findings.json")
    if not os.path.exists(p):
        return []
    return json.load(open(p)).get("findings", [])


def sig_matches(entry, pid, rule, rec):
    """A known finding names property, rule and a set of field paths -> value(s)."""
    if entry.get("status") != "open" or entry.get("property") != pid or entry.get("rule") != rule:
        return False
    for path, want in entry.get("match", {}).items():
        cur = rec
        for part in path.split("."):
            if not isinstance(cur, dict) or part not in cur:
                return False
            cur = cur[part]
        if isinstance(want, list):
            if cur not in want:
                return False
        elif cur != want:
            return False
    return True


def report(ctx, rule, rec, what, replay_obj):
    """Record one violating observation of rule `rule` (already filtered to this property)."""
    for e in load_known():
        if sig_matches(e, ctx.id, rule, rec):
            key = e["id"]
            if key not in [k["id"] for k in ctx.known]:
                ctx.known.append({"id": key, "what": e["what"], "count": 1})
            else:
                for k in ctx.known:
                    if k["id"] == key:
                        k["count"] += 1
            return
    ctx.viol_counts = getattr(ctx, "viol_counts", {})
    ctx.viol_counts[rule] = ctx.viol_counts.get(rule, 0) + 1
    if ctx.viol_counts[rule] > 3:
        return  # counted, but only the first three per rule get a replay file and a VIOLATION line
    d = os.path.join(OUT, "replays", ctx.id)
    os.makedirs(d, exist_ok=True)
    name = "%s-seed%d-%s-%d.json" % (ctx.tier, ctx.seed, rule, len(ctx.violations))
    path = os.path.join(d, name)
    replay_obj = dict(replay_obj)
    replay_obj.update({"property": ctx.id, "rule": rule, "what": what, "seed": ctx.seed, "tier": ctx.tier})
    with open(path, "w") as f:
        json.dump(replay_obj, f, indent=1, sort_keys=True)
    ctx.violations.append({"rule": rule, "what": what, "replay": path})


def finish(ctx, rule_text, extra_cov=None):
    cov = ctx.cov
    if extra_cov:
        cov.update(extra_cov)
    cov["rule"] = rule_text
    cov["model_drift_lines"] = ctx.drift
    if not cov["samples"]:
        cov["samples"] = [{"note": "no sample recorded"}]
    ev = {"property_id": ctx.id, "tier": ctx.tier, "seed": ctx.seed, "level": ctx.level, "coverage": cov,
          "assumptions": ctx.assumptions, "wall_s": round(time.time() - ctx.t0, 1),
          "violations": len(ctx.violations), "known_findings_reproduced": ctx.known}
    ev["violations"] = sum(getattr(ctx, "viol_counts", {}).values())
    if not getattr(ctx, "replaying", False):
        os.makedirs(os.path.join(OUT, "evidence"), exist_ok=True)
        with open(os.path.join(OUT, "evidence", ctx.id + ".json"), "w") as f:
            json.dump(ev, f, indent=1, sort_keys=True)
    for k in ctx.known:
        print("KNOWN-FINDING: property=%s %s (%s, %d observations)" % (ctx.id, k["what"], k["id"], k["count"]))
    for v in ctx.violations:
        print("VIOLATION property=%s replay=%s rule=%s %s" % (ctx.id, v["replay"], v["rule"], v["what"]))
    ctx.say("done: %d violations, %d known findings, %d drift lines" % (len(ctx.violations), len(ctx.known), ctx.drift))
    return 1 if ctx.violations else 0
